"""Shared driver machinery: context, parallel map, evidence, replays, known findings, exit codes."""
from __future__ import annotations
import json
import multiprocessing as mp
import os
import subprocess
import sys
import time
import hashlib

VERIF = os.path.dirname(os.path.dirname(os.path.abspath(__file__)))
REPO = '/repo'
EVIDENCE_DIR = os.path.join(VERIF, 'evidence')
REPLAY_DIR = os.path.join(VERIF, 'replays')
if os.environ.get('WCVERIF_DEV_REPO'):
    # developer runs only (never set by a registered command): another checkout stands in for /repo, and nothing is written to the
    # evidence / replay directories of /verif
    REPO = os.path.realpath(os.environ['WCVERIF_DEV_REPO'])
    EVIDENCE_DIR = '/tmp/wcverif_dev/evidence'
    REPLAY_DIR = '/tmp/wcverif_dev/replays'
KNOWN_FILE = os.path.join(VERIF, 'KNOWN_FINDINGS.txt')

EXIT_OK, EXIT_VIOLATION, EXIT_HARNESS = 0, 1, 3


class HarnessError(Exception):
    """Inconclusive / machinery problem: exit code 3, never a pass and never a VIOLATION."""


def assert_repo_tree():
    import wcmatch
    f = os.path.realpath(wcmatch.__file__)
    if not f.startswith(REPO + '/'):
        raise HarnessError(f'wcmatch imported from {f}, not from {REPO}')


class Ctx:
    def __init__(self, prop, tier='quick', seed=0, workers=None):
        self.prop = prop
        self.tier = tier
        self.seed = seed
        self.workers = workers or int(os.environ.get('VERIF_WORKERS', '0')) or min(16, os.cpu_count() or 4)
        self.t0 = time.time()
        self.violations = []       # list of replay dicts (already reproduced)
        self.known_hits = []       # list of (key, text)
        self.notes = []
        self.inconclusive = []     # obligations not discharged (unknown/timeouts/unreproduced)
        self.coverage = {}
        self.assumptions = []

    @property
    def quick(self):
        return self.tier == 'quick'

    def elapsed(self):
        return time.time() - self.t0


def _run_chunk(args):
    func, chunk, extra = args
    out = []
    for item in chunk:
        out.append(func(item, *extra))
    return out


def pmap(func, items, workers, extra=(), chunk=None):
    """Parallel map preserving no order guarantees on side effects; returns results in input order."""
    items = list(items)
    if not items:
        return []
    if workers <= 1 or len(items) < 4:
        return [func(it, *extra) for it in items]
    if chunk is None:
        chunk = max(1, min(64, len(items) // (workers * 8) or 1))
    chunks = [items[i:i + chunk] for i in range(0, len(items), chunk)]
    ctx = mp.get_context('fork')
    with ctx.Pool(workers) as pool:
        res = pool.map(_run_chunk, [(func, c, extra) for c in chunks], chunksize=1)
    out = []
    for r in res:
        out.extend(r)
    return out


# ---------------------------------------------------------------------------------------------------
# JSON helpers (bytes-safe)

def enc(o):
    if isinstance(o, bytes):
        return {'__bytes__': o.decode('latin-1')}
    if isinstance(o, (list, tuple)):
        return [enc(x) for x in o]
    if isinstance(o, dict):
        return {k: enc(v) for k, v in o.items()}
    if isinstance(o, (set, frozenset)):
        return sorted((enc(x) for x in o), key=repr)
    return o


def dec(o):
    if isinstance(o, dict):
        if set(o) == {'__bytes__'}:
            return o['__bytes__'].encode('latin-1')
        return {k: dec(v) for k, v in o.items()}
    if isinstance(o, list):
        return [dec(x) for x in o]
    return o


# ---------------------------------------------------------------------------------------------------
# Replays

def write_replay(prop, replay):
    os.makedirs(REPLAY_DIR, exist_ok=True)
    blob = json.dumps(enc(replay), sort_keys=True, ensure_ascii=True)
    h = hashlib.sha1(blob.encode()).hexdigest()[:12]
    path = os.path.join(REPLAY_DIR, f'{prop}_{h}.json')
    with open(path, 'w') as f:
        json.dump(enc(replay), f, indent=1, sort_keys=True, ensure_ascii=True)
    return path


def run_replay_file(path, timeout=60):
    """Run a replay in a clean interpreter against the real, unpatched code.
    Returns (code, output): 0 property holds on this case, 1 violated (reproduced), else error."""
    import shutil
    import tempfile
    env = dict(os.environ)
    env['PYTHONPATH'] = REPO + os.pathsep + VERIF
    env['PYTHONDONTWRITEBYTECODE'] = '1'
    scratch = tempfile.mkdtemp(prefix='wcverif_rp_')      # the replay's trees live here: removed even when the replay is killed on time-out
    env['TMPDIR'] = scratch
    try:
        p = subprocess.run([sys.executable, '-m', 'engine.replay', path], cwd=VERIF, env=env,
                           capture_output=True, text=True, timeout=timeout)
    except subprocess.TimeoutExpired:
        return 4, 'replay timed out'
    finally:
        shutil.rmtree(scratch, ignore_errors=True)
    return p.returncode, (p.stdout + p.stderr).strip()


def confirm(ctx, replay):
    """Replay a candidate counterexample; only a reproduced one becomes a violation."""
    if len(ctx.violations) >= 15:
        ctx.suppressed = getattr(ctx, 'suppressed', 0) + 1       # enough reproduced violations: further candidates are only counted
        return False
    path = write_replay(ctx.prop, replay)
    code, out = run_replay_file(path)
    if code == 1:
        ctx.violations.append({'path': path, 'replay': replay, 'output': out})
        return True
    try:
        os.unlink(path)
    except OSError:
        pass
    ctx.inconclusive.append({'why': f'counterexample did not reproduce (replay exit {code})', 'replay': enc(replay),
                             'output': out[-500:]})
    return False


# ---------------------------------------------------------------------------------------------------
# Known findings

def load_known(prop):
    """Entries of KNOWN_FINDINGS.txt for a property: list of dicts(kind, key, text, json)."""
    out = []
    if not os.path.exists(KNOWN_FILE):
        return out
    for line in open(KNOWN_FILE):
        line = line.strip()
        if not line or line.startswith('#'):
            continue
        kind, _, rest = line.partition(':')
        kind = kind.strip()
        rest = rest.strip()
        if kind not in ('finding', 'fixed'):
            continue
        if not rest.startswith(f'property={prop} '):
            continue
        body = rest[len(f'property={prop} '):]
        ent = {'kind': kind, 'text': body, 'key': None, 'witness': None}
        if kind == 'finding':
            # finding: property=C01 key=<key> witness=<json> :: description
            head, _, desc = body.partition(' :: ')
            ent['desc'] = desc
            parts = head.split(' ', 1)
            if parts[0].startswith('key='):
                ent['key'] = parts[0][4:]
            if len(parts) > 1 and parts[1].startswith('witness='):
                ent['witness'] = dec(json.loads(parts[1][8:]))
        out.append(ent)
    return out


def check_known_witnesses(ctx, prop=None, report=True):
    """Re-execute the listed witness of every known finding; report KNOWN-FINDING or a stale note.
    Returns the set of keys whose witness still fails.  With another property's id and report=False the regions of
    that property's findings are only taken as stated exclusions (no KNOWN-FINDING line for this property)."""
    live = set()
    for ent in load_known(prop or ctx.prop):
        if ent['kind'] != 'finding':
            continue
        if ent['witness'] is None:
            continue
        path = write_replay(ctx.prop + '_known', ent['witness'])
        code, out = run_replay_file(path)
        os.unlink(path)
        if code == 1:
            live.add(ent['key'])
            if report:
                ctx.known_hits.append((ent['key'], ent.get('desc', '')))
        elif code == 0:
            if report:
                ctx.notes.append(f'stale known finding (witness no longer fails): {ent["key"]}')
        else:
            raise HarnessError(f'known-finding witness {ent["key"]} could not be replayed: {out[-300:]}')
    return live


# ---------------------------------------------------------------------------------------------------
# Evidence + verdict

def finish(ctx, level='model_checking'):
    os.makedirs(EVIDENCE_DIR, exist_ok=True)
    cov = dict(ctx.coverage)
    cov.setdefault('evaluations', 0)
    cov.setdefault('distinct_nontrivial', 0)
    cov.setdefault('rule', '')
    cov.setdefault('samples', [])
    cov['known_findings_hit'] = [k for k, _ in ctx.known_hits]
    cov['inconclusive'] = len(ctx.inconclusive)
    if ctx.inconclusive:
        cov['inconclusive_samples'] = ctx.inconclusive[:5]
    cov['notes'] = ctx.notes[:20]
    ev = {
        'property_id': ctx.prop,
        'tier': ctx.tier,
        'seed': ctx.seed,
        'level': level,
        'coverage': enc(cov),
        'assumptions': ctx.assumptions,
        'wall_s': round(ctx.elapsed(), 2),
        'violations': len(ctx.violations),
    }
    with open(os.path.join(EVIDENCE_DIR, f'{ctx.prop}.json'), 'w') as f:
        json.dump(ev, f, indent=1, ensure_ascii=True)
    for key, desc in ctx.known_hits:
        print(f'KNOWN-FINDING: property={ctx.prop} {key} {desc}')
    if getattr(ctx, 'suppressed', 0):
        print(f'note: {ctx.suppressed} further candidate counterexamples were not replayed (15 violations already reproduced)')
    for n in ctx.notes:
        print('note:', n)
    if ctx.violations:
        for v in ctx.violations[:20]:
            print(f'VIOLATION property={ctx.prop} replay={v["path"]}')
            print('  ', v['output'][-400:].replace('\n', '\n   '))
        return EXIT_VIOLATION
    if ctx.inconclusive:
        print(f'INCONCLUSIVE property={ctx.prop}: {len(ctx.inconclusive)} obligation(s) not discharged')
        for x in ctx.inconclusive[:5]:
            print('  ', json.dumps(enc(x))[:600])
        return EXIT_HARNESS
    q = cov.get('queries')
    print(f'OK property={ctx.prop} tier={ctx.tier} evaluations={cov["evaluations"]} '
          f'distinct_nontrivial={cov["distinct_nontrivial"]} wall={ev["wall_s"]}s' + (f' queries={q}' if q else ''))
    return EXIT_OK

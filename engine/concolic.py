"""E4 `concolic`: concolic execution of the real pattern parsers over symbolic pattern characters.

`SymChar(str)` / `SymStr(str)` carry a z3 integer per character.  Equality tests, membership in the parser's character
sets (replaced for the run by equality-based containers), `ord()` comparisons, `re.escape` and the POSIX-class lookup record
(constraint, outcome) pairs.  Generational search: every recorded branch beyond the inherited prefix is flipped and handed
to z3, whose model is the next pattern.  Anything that consumes a proxy at C level without a recorded constraint
(`__hash__`) is counted as a lost-constraint event.
"""
from __future__ import annotations
import re
import time
import z3

TRACE = None
LOST = [0]


class SymChar(str):
    def __new__(cls, val, var):
        o = str.__new__(cls, val)
        o.var = var
        return o

    def _rec(self, other, res):
        if TRACE is None:
            return
        if isinstance(other, SymChar):
            TRACE.append((('eq', self.var, other.var), res))
        elif isinstance(other, str) and len(other) == 1:
            TRACE.append((('eq', self.var, ord(other)), res))

    def __eq__(self, other):
        res = str.__eq__(self, other)
        if res is NotImplemented:
            return res
        self._rec(other, res)
        return res

    def __ne__(self, other):
        res = str.__eq__(self, other)
        if res is NotImplemented:
            return res
        self._rec(other, res)
        return not res

    def __hash__(self):
        LOST[0] += 1
        return str.__hash__(self)


class SymStr(str):
    def __new__(cls, chars):
        o = str.__new__(cls, ''.join(chars))
        o.chars = list(chars)
        return o

    def __getitem__(self, i):
        if isinstance(i, int):
            return self.chars[i]
        return SymStr(self.chars[i])

    def __iter__(self):
        return iter(self.chars)

    def __eq__(self, other):
        if isinstance(other, str) and not isinstance(other, SymStr):
            if len(other) != len(self.chars):
                return False
            return all(c == o for c, o in zip(self.chars, other))
        if isinstance(other, SymStr):
            if len(other.chars) != len(self.chars):
                return False
            return all(c == o for c, o in zip(self.chars, other.chars))
        return str.__eq__(self, other)

    def __ne__(self, other):
        r = self.__eq__(other)
        return r if r is NotImplemented else not r

    def __hash__(self):
        LOST[0] += 1
        return str.__hash__(self)

    def startswith(self, pre, *a):
        if isinstance(pre, tuple):
            return any(self.startswith(p) for p in pre)
        if isinstance(pre, str) and not a:
            if len(pre) > len(self.chars):
                return False
            return all(c == o for c, o in zip(self.chars, pre))
        return str.startswith(self, pre, *a)

    def __contains__(self, item):
        if isinstance(item, str) and len(item) == 1:
            return any(c == item for c in self.chars)
        return str.__contains__(self, item)


class EqSet:
    """frozenset replacement whose membership goes through == (so constraints are recorded)."""

    def __init__(self, items):
        self.items = tuple(items)

    def __contains__(self, x):
        return any(x == i for i in self.items)

    def __iter__(self):
        return iter(self.items)


class SymOrd(int):
    def __new__(cls, v, var):
        o = int.__new__(cls, v)
        o.var = var
        return o

    def _cmp(self, other, op, res):
        ov = other.var if isinstance(other, SymOrd) else int(other)
        if TRACE is not None:
            TRACE.append(((op, self.var, ov), res))
        return res

    def __lt__(self, other):
        return self._cmp(other, 'lt', int.__lt__(self, other))

    def __gt__(self, other):
        return self._cmp(other, 'gt', int.__gt__(self, other))

    def __le__(self, other):
        return self._cmp(other, 'le', int.__le__(self, other))

    def __ge__(self, other):
        return self._cmp(other, 'ge', int.__ge__(self, other))

    __hash__ = int.__hash__


def sym_ord(c):
    if isinstance(c, SymChar):
        return SymOrd(ord(str(c)), c.var)
    if isinstance(c, SymStr) and len(c.chars) == 1 and isinstance(c.chars[0], SymChar):
        return SymOrd(ord(str(c)), c.chars[0].var)
    return ord(c)


SPECIAL = EqSet([chr(i) for i in b'()[]{}?*+-|^$\\.&~# \t\n\r\v\f'])
POSIX_NAMES = ('alnum', 'alpha', 'ascii', 'blank', 'cntrl', 'digit', 'graph', 'lower', 'print', 'punct', 'space', 'upper', 'word', 'xdigit')


class ReShim:
    def __getattr__(self, n):
        return getattr(re, n)

    @staticmethod
    def escape(c):
        if isinstance(c, SymChar):
            _ = c in SPECIAL            # records "is an re-special character or not"
        elif isinstance(c, SymStr):
            for ch in c.chars:
                if isinstance(ch, SymChar):
                    _ = ch in SPECIAL
        return re.escape(str(c))


_installed = {}


def install():
    """Patch the parser modules for a concolic run (undone by uninstall())."""
    from wcmatch import _wcparse as wp, util, glob as G
    if _installed:
        return
    _installed['wp'] = {k: getattr(wp, k) for k in ('EXT_TYPES', 'SET_OPERATORS', 'NEGATIVE_SYM', 'MINUS_NEGATIVE_SYM', 'ROUND_BRACKET')}
    _installed['match'] = util.StringIter.match
    wp.EXT_TYPES = EqSet(sorted(wp.EXT_TYPES))
    wp.SET_OPERATORS = EqSet(sorted(wp.SET_OPERATORS))
    wp.NEGATIVE_SYM = EqSet(['!'])
    wp.MINUS_NEGATIVE_SYM = EqSet(['-'])
    wp.ROUND_BRACKET = EqSet(['('])
    wp.ord = sym_ord
    wp.re = ReShim()
    # the memo of _compile is semantically transparent (C19): bypass it so that no proxy is hashed as a cache key
    _installed['_compile'] = wp._compile
    wp._compile = wp._compile.__wrapped__
    orig_match = util.StringIter.match

    def match(self, pattern):
        s = self._string
        if isinstance(s, SymStr) and pattern is wp.RE_POSIX:
            rest = s[self._index:]
            for name in POSIX_NAMES:
                lit = ':' + name + ':]'
                if len(rest.chars) >= len(lit) and rest[:len(lit)] == lit:
                    break
        return orig_match(self, pattern)
    util.StringIter.match = match


def uninstall():
    from wcmatch import _wcparse as wp, util
    if not _installed:
        return
    for k, v in _installed['wp'].items():
        setattr(wp, k, v)
    del wp.ord
    wp.re = re
    wp._compile = _installed['_compile']
    util.StringIter.match = _installed['match']
    _installed.clear()


def run_traced(func, pattern):
    """Run func(pattern) recording the branch trace; returns (outcome string, trace)."""
    global TRACE
    TRACE = []
    try:
        outcome = func(pattern)
    finally:
        tr, TRACE = TRACE, None
    return outcome, tr


def to_z3(desc):
    op, a, b = desc
    x = z3.Int(a) if isinstance(a, str) else a
    y = z3.Int(b) if isinstance(b, str) else b
    return {'eq': lambda: x == y, 'lt': lambda: x < y, 'gt': lambda: x > y, 'le': lambda: x <= y, 'ge': lambda: x >= y}[op]()


def explore(make_pattern, nvars, func, cap_s=60, max_paths=100000, prefix=None):
    """Generational search.  make_pattern(list of SymChar) -> SymStr; func(pattern) -> outcome string.
    Returns dict(paths, pending, bad {outcome: witness text}, witnesses [text per path], time_s, solver_calls)."""
    names = ['c%d' % i for i in range(nvars)]
    vars_ = [z3.Int(n) for n in names]
    s = z3.Solver()
    s.add(*[z3.And(v >= 0, v <= 0x10FFFF) for v in vars_])
    work = [list(prefix or [])]
    seen = set()
    bad = {}
    wit = []
    paths = 0
    calls = 0
    t0 = time.time()
    while work and time.time() - t0 < cap_s and paths < max_paths:
        pre = work.pop()
        s.push()
        for e, o in pre:
            s.add(to_z3(e) if o else z3.Not(to_z3(e)))
        calls += 1
        r = s.check()
        if r != z3.sat:
            s.pop()
            continue
        m = s.model()
        s.pop()
        vals = [m.eval(v, model_completion=True).as_long() for v in vars_]
        chars = [SymChar(chr(v), x) for v, x in zip(vals, names)]
        pat = make_pattern(chars)
        outcome, tr = run_traced(func, pat)
        key = tuple(tr)
        if key in seen:
            continue
        seen.add(key)
        paths += 1
        text = str(pat)
        wit.append(text)
        if outcome != 'ok':
            bad.setdefault(outcome, text)
        for i in range(len(pre), len(tr)):
            work.append(tr[:i] + [(tr[i][0], not tr[i][1])])
    return {'paths': paths, 'pending': len(work), 'bad': bad, 'witnesses': wit, 'traces': sorted(seen, key=len)[:0], 'time_s': round(time.time() - t0, 2), 'solver_calls': calls,
            'complete': not work}

"""E1 helpers shared by the regex-level properties: obtaining the real regexes, equivalence queries,
encoder validation against the real engine, witness replays."""
from __future__ import annotations
import random
import re
import time
import z3

from engine.rxsmt import SymStr, RxEnc, NotEncodable, matcher_regexes, TRUE, FALSE
from engine import common

DOCUMENTED = ('PatternLimitException', 'SyntaxError', 'TypeError', 'ValueError', 'KeyError', 'LookupError')


def mod_of(mode):
    from wcmatch import fnmatch, glob
    return fnmatch if mode == 'fn' else glob


def api_name(mode, fn):
    return f'wcmatch.{"fnmatch" if mode == "fn" else "glob"}.{fn}'


def match_fn(mode):
    return 'fnmatch' if mode == 'fn' else 'globmatch'


def real_regexes(mode, pats, flags, exclude=None, limit=1000):
    """(include, exclude) regex texts executed by the real matcher."""
    m = mod_of(mode).compile(pats, flags=flags, exclude=exclude, limit=limit)
    return matcher_regexes(m)


def real_translate(mode, pats, flags, exclude=None, limit=1000):
    inc, exc = mod_of(mode).translate(pats, flags=flags, exclude=exclude, limit=limit)
    return list(inc), list(exc)


def solve(constraints, timeout_ms=120000):
    s = z3.SolverFor('QF_BV')
    s.set('timeout', timeout_ms)
    for c in constraints:
        if isinstance(c, (list, tuple)):
            s.add(*c)
        else:
            s.add(c)
    t = time.time()
    r = str(s.check())
    dt = time.time() - t
    return r, (s.model() if r == 'sat' else None), dt


def is_bytes_regexes(inc, exc):
    for r in list(inc) + list(exc):
        return isinstance(r[0] if isinstance(r, tuple) else r, bytes)
    return False


class Pair:
    """Two matcher formulas over one symbolic name."""

    def __init__(self, N, is_bytes=False, name='s'):
        self.sym = SymStr(name, N, is_bytes)
        self.enc = RxEnc(self.sym)

    def matcher(self, inc, exc):
        return self.enc.matcher(inc, exc)

    def matcher_fullmatch(self, inc, exc):
        return self.enc.matcher_fullmatch(inc, exc)

    def differ(self, f1, f2, extra=()):
        """Return (verdict, witness, solver_time): sat => a name on which the formulas disagree."""
        cons = self.enc.side_constraints() + [z3.Xor(f1, f2)] + list(extra)
        r, m, dt = solve(cons)
        return r, (self.sym.eval(m) if m is not None else None), dt

    def find(self, f, extra=()):
        cons = self.enc.side_constraints() + [f] + list(extra)
        r, m, dt = solve(cons)
        return r, (self.sym.eval(m) if m is not None else None), dt


def _rc(r):
    return re.compile(r[0], r[1] & ~re.U if isinstance(r[0], bytes) else r[1]) if isinstance(r, tuple) else re.compile(r)


def concrete_match(inc, exc, name):
    from engine.rxsmt import wrapper_methods
    mi, me = wrapper_methods()
    if not name:
        return False
    if not any(getattr(_rc(r), mi)(name) for r in inc):
        return False
    return not any(getattr(_rc(r), me)(name) for r in exc)


def validate_encoder(inc, exc, N, rnd, alphabet, n=25, is_bytes=False):
    """Pin random concrete strings into the formula and compare with re.fullmatch. Returns list of mismatches."""
    sym = SymStr('v', N, is_bytes)
    e = RxEnc(sym)
    f = e.matcher(inc, exc)
    s = z3.SolverFor('QF_BV')
    s.add(*e.side_constraints())
    bad = []
    for _ in range(n):
        k = rnd.randint(0, N)
        w = ''.join(rnd.choice(alphabet) for _ in range(k))
        if is_bytes:
            try:
                w = w.encode('latin-1')
            except UnicodeEncodeError:
                continue
        real = concrete_match(inc, exc, w)
        s.push()
        s.add(sym.eq_const(w))
        s.add(f if real else z3.Not(f))
        r = str(s.check())
        s.pop()
        if r != 'sat':
            # could be that w is outside the case-insensitive alphabet: re-check by asking eq_const alone
            s.push()
            s.add(sym.eq_const(w))
            inside = str(s.check()) == 'sat'
            s.pop()
            if inside:
                bad.append((w, real, r))
    return bad


def replay_match(mode, name, pats, flags, expect, exclude=None, describe=''):
    kwargs = {'flags': flags}
    if exclude is not None:
        kwargs['exclude'] = exclude
    return {
        'describe': describe,
        # the answer of all matching entry points (direct call, compiled matcher, filter): see replayfn.matcher_accepts
        'steps': [{'as': 'r', 'call': 'engine.replayfn.matcher_accepts', 'args': ['fn' if mode == 'fn' else 'gl', pats, name, kwargs]}],
        'assert': f'r == {expect!r}',
    }


def flagnames(mode, flags):
    m = mod_of(mode)
    names = []
    for n in ('CASE', 'IGNORECASE', 'RAWCHARS', 'NEGATE', 'MINUSNEGATE', 'DOTMATCH', 'DOTGLOB', 'EXTMATCH', 'EXTGLOB', 'GLOBSTAR',
              'GLOBSTARLONG', 'BRACE', 'REALPATH', 'FOLLOW', 'SPLIT', 'MATCHBASE', 'NODIR', 'NEGATEALL', 'FORCEWIN', 'FORCEUNIX',
              'GLOBTILDE', 'NOUNIQUE', 'NODOTDIR', 'SCANDOTDIR', 'MARK'):
        v = getattr(m, n, None)
        if v and flags & v and n not in ('DOTGLOB', 'EXTGLOB') :
            names.append(n)
    return '|'.join(names) or '0'

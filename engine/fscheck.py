"""Check functions of the file-system properties.  Each is a plain function of (root directory, parameters) that uses only
the public wcmatch API and os calls; under E3 it runs against the stubbed symbolic `os` layer, in a replay it runs
unchanged against a materialised real tree.  Returns {'viol': [messages], 'obs': observation used for stub-fidelity checks}.
"""
from __future__ import annotations
import os


def strip_sep(p):
    if isinstance(p, bytes):
        return p.rstrip(b'/') or p[:1]
    return p.rstrip('/') or p[:1]


def _call(f, *a, **k):
    try:
        return f(*a, **k)
    except RecursionError:
        raise
    except Exception as e:  # noqa: BLE001
        if type(e).__name__ == 'BudgetExceeded':
            raise
        return 'EXC:' + type(e).__name__


def slot_candidates(slots):
    out = []
    for s in slots:
        out.append(s)
        out.append(s + '/')
    return out


# ---------------------------------------------------------------------------------------------------------
# C04: globmatch with REALPATH matches exactly what glob globs

def c04(root, pats, flags, exclude, via, slots):
    from wcmatch import glob as G
    viol = []
    kw = {'flags': flags}
    if exclude is not None:
        kw['exclude'] = exclude
    fd = None
    old = None
    try:
        if via == 'root_dir':
            kw['root_dir'] = root
        elif via == 'dir_fd':
            fd = os.open(root, os.O_RDONLY | getattr(os, 'O_DIRECTORY', 0))
            kw['dir_fd'] = fd
        else:
            old = os.getcwd()
            os.chdir(root)
        R = _call(G.glob, pats, **kw)
        if isinstance(R, str):
            return {'viol': [f'glob raised {R}'] if R not in ('EXC:PatternLimitException',) else [], 'obs': R}
        if any(r.count('/') > 20 for r in R):
            # a followed symlink cycle was walked down to the kernel's ELOOP limit: no claim is made there
            return {'viol': [], 'obs': None, 'eloop': True}
        cands = slot_candidates(slots) + list(R) + ['zz-missing', 'zz-missing/', root + '/' + slots[0], '/']
        kwm = dict(kw)
        kwm['flags'] = flags | G.REALPATH
        M = set()
        for c in cands:
            r = _call(G.globmatch, c, pats, **kwm)
            if r is True:
                M.add(strip_sep(c))
            elif r is not False:
                viol.append(f'globmatch({c!r}) -> {r}')
        RS = {strip_sep(r) for r in R}
        if flags & G.IGNORECASE and not flags & G.CASE:
            # results are unique modulo case under IGNORECASE (C13): compare modulo case as well
            RS = {x.lower() for x in RS}
            M = {x.lower() for x in M}
        only_glob = sorted(RS - M)
        only_match = sorted(M - RS)
        if only_glob:
            viol.append(f'returned by glob but rejected by REALPATH globmatch: {only_glob}')
        if only_match:
            viol.append(f'accepted by REALPATH globmatch but not returned by glob: {only_match}')
        base = root if via != 'cwd' else '.'
        nondir = [p for p in only_match if not os.path.isdir(os.path.join(base, p))]
        return {'viol': viol, 'obs': (sorted(R), sorted(M)), 'only_glob': only_glob, 'only_match': only_match, 'only_match_nondir': nondir}
    finally:
        if fd is not None:
            os.close(fd)
        if old is not None:
            os.chdir(old)


def termination_claimed(check_name, params):
    """Is exceeding the directory-listing budget a violation for this combo?  (No claim with FOLLOW / *** / SYMLINKS on cyclic trees.)"""
    from wcmatch import glob as G, wcmatch as W
    if check_name == 'c14':
        return not (params[4] & W.SYMLINKS)
    if check_name == 'c06_wcmatch':
        return not (params[1] & W.SYMLINKS)
    if check_name == 'c09fs':
        return True
    if check_name == 'c20fs':
        pats, flags = params[0], params[2]
        return True
    if check_name == 'c07fs':
        pats, flags = list(params[0]) + list(params[1]), params[2]
    elif check_name == 'c18fs':
        if params[0] == 'wcmatch':
            return not (params[2] & W.SYMLINKS)
        pats, flags = params[1], params[2]
    elif check_name == 'c13':
        pats, flags = params[0], params[3]
    else:
        pats, flags = params[0], params[1]
    if isinstance(pats, tuple) and pats and isinstance(pats[0], tuple):
        from engine import gen
        text = gen.render_path(pats)          # a generator AST
    else:
        text = ' '.join(pats) if isinstance(pats, (list, tuple)) else str(pats)
    if flags & G.FOLLOW and not flags & G.GLOBSTARLONG:
        return False
    if flags & G.GLOBSTARLONG and ('***' in text or flags & G.FOLLOW):
        return False
    if check_name == 'c16':
        return not (flags & (G.FOLLOW | G.GLOBSTARLONG))
    return True


def _kind_of(tree, rel):
    for e in tree['entries']:
        if e[0] == rel:
            return e[1]
    return None


def c04_classify(params, tree, res):
    """Listed finding: a pattern ending in `**/` (a final globstar followed by a separator) accepts a non-directory under REALPATH."""
    pats, flags, exclude, via = params
    text = pats if isinstance(pats, str) else None
    if text and (text.endswith('**/') or text.endswith('***/')) and not res.get('only_glob') and res.get('only_match'):
        if res.get('only_match_nondir') == res['only_match']:
            return 'final-globstar-dir-pattern-accepts-non-directory'
    from wcmatch import glob as G
    if text and isinstance(flags, int) and flags & G.MATCHBASE and ('/' not in text.rstrip('/') or set(text) <= {'*', '/'}):
        # (the walker folds consecutive globstars first, so `**/**` is a single part for it and MATCHBASE applies as for `**`)
        import re
        first_gs = re.match(r'\*\*(?:/|$)', text) is not None
        if first_gs and flags & G.GLOBSTARLONG and flags & G.FOLLOW and res.get('only_glob'):
            # MATCHBASE's implicit prefix is `***` here and stands next to the written `**`: the walker folds the two into one link-following
            # globstar, the matcher checks the captured `**` for symlinks (same root as C06's adjacent-globstar finding, implicit form)
            return 'matchbase-long-follow-prefix-before-globstar'
        single = text.rstrip('/') in ('**', '***')
        if single and not res.get('only_glob') and res.get('only_match') and all(any(seg.startswith('.') for seg in x.split('/')) for x in res['only_match']):
            return 'matchbase-globstar-hidden'            # listed under C03: `**` + MATCHBASE accepts hidden names in the matcher only
    return c06_classify(params, tree, res)


# ---------------------------------------------------------------------------------------------------------
# C05: glob returns exactly the paths the pattern denotes (reference walk oracle)

def glob_flags_info(flags):
    from wcmatch import glob as G
    return dict(globstar=bool(flags & G.GLOBSTAR), globstarlong=bool(flags & G.GLOBSTARLONG), dot=bool(flags & G.DOTGLOB),
                ci=bool(flags & G.IGNORECASE) and not flags & G.CASE, scandotdir=bool(flags & G.SCANDOTDIR), matchbase=bool(flags & G.MATCHBASE),
                follow=bool(flags & G.FOLLOW), nodir=bool(flags & G.NODIR))


def c05(root, items, flags, slots):
    from wcmatch import glob as G
    from engine import gen, refwalk
    text = gen.render_path(items)
    R = _call(G.glob, text, flags=flags, root_dir=root)
    if isinstance(R, str):
        return {'viol': [f'glob raised {R}'], 'obs': R}
    if any(r.count('/') > 20 for r in R):
        return {'viol': [], 'obs': None, 'eloop': True}
    ref = refwalk.ref_glob(root, items, **glob_flags_info(flags))
    if ref is None:
        return {'viol': [], 'obs': sorted(R)}
    must, may = ref
    RS = {strip_sep(r) for r in R}
    if flags & G.IGNORECASE and not flags & G.CASE:
        RS, must, may = {x.lower() for x in RS}, {x.lower() for x in must}, {x.lower() for x in may}
    viol = []
    missing = sorted(must - RS)
    extra = sorted(RS - may)
    if missing:
        viol.append(f'existing matches missing from glob({text!r}): {missing}')
    if extra:
        viol.append(f'glob({text!r}) returned paths the pattern does not denote: {extra}')
    return {'viol': viol, 'obs': sorted(R), 'missing': missing, 'extra': extra}


def c05_classify(params, tree, res):
    from engine import regions
    items, flags = params
    fi = dict(glob_flags_info(flags), path=True, nodotdir=False)
    if res.get('extra') and not res.get('missing'):
        if regions.pat_nullable_start('gl', items, fi) and all(x.rsplit('/', 1)[-1].startswith('.') for x in res['extra']):
            # the walker's per-segment matcher lets a wildcard after an empty-matching first node consume a leading dot (C03 finding)
            return 'unguarded-wildcard-after-nullable-start'
        if regions.pat_nullable_segment('gl', items, fi) and fi['matchbase']:
            # a segment pattern that can match the empty string, compiled with the implicit MATCHBASE prefix, matches every name (C02 finding)
            return 'empty-segment-by-nullable-group'
    return None


# ---------------------------------------------------------------------------------------------------------
# C06: `**` does not traverse symlinked directories unless asked; termination

class _Recorder:
    """Records the path argument of every os.scandir call made by the code under test (stub or real os)."""

    def __init__(self):
        self.paths = []

    def __enter__(self):
        self.orig = os.scandir
        rec = self

        def scandir(path='.'):
            rec.paths.append(path)
            return rec.orig(path)
        os.scandir = scandir
        return self

    def __exit__(self, *a):
        os.scandir = self.orig
        return False


def _rel(path, root):
    if isinstance(path, int):
        return None
    p = os.fsdecode(os.fspath(path))
    if p == root:
        return ''
    if p.startswith(root + '/'):
        p = p[len(root) + 1:]
    parts = [c for c in p.split('/') if c and c != '.']
    return '/'.join(parts)


def _has_link_component(root, rel):
    cur = root
    for c in rel.split('/'):
        if not c:
            continue
        cur = os.path.join(cur, c)
        if c not in ('.', '..') and os.path.islink(cur):
            return True
    return False


def c06(root, items, flags, slots):
    """Directories listed by glob() are only those the reference walk lists: no listing through a symlink at a `**` position."""
    from wcmatch import glob as G
    from engine import gen, refwalk
    text = gen.render_path(items)
    with _Recorder() as rec:
        R = _call(G.glob, text, flags=flags, root_dir=root)
    if isinstance(R, str):
        return {'viol': [f'glob raised {R}'], 'obs': R}
    impl = sorted({x for x in (_rel(p, root) for p in rec.paths) if x is not None})
    if any(d.count('/') > 12 for d in impl):
        # a followed symlink cycle is being walked down to the kernel's ELOOP limit: no claim there (FOLLOW / ***)
        return {'viol': [], 'obs': None, 'eloop': True}
    refwalk.LISTED = []
    try:
        ref = refwalk.ref_glob(root, items, **glob_flags_info(flags))
        allowed = {_rel(p, root) for p in refwalk.LISTED}
    finally:
        refwalk.LISTED = None
    viol = []
    if ref is not None:
        # literal segments are probed with lexists by the implementation (no listing) - the reference lists less or equal there;
        # what must never happen: a listing the reference walk would not make and that goes through a symlink
        bad = [d for d in impl if d not in allowed and _has_link_component(root, d)]
        if bad:
            viol.append(f'glob({text!r}) listed directories through a symlink that the pattern does not go through: {bad}')
    return {'viol': viol, 'obs': (sorted(R), impl)}


def c06_wcmatch(root, pattern, flags, slots):
    """WcMatch without SYMLINKS never lists a directory through a symlink (and terminates: listing budget)."""
    from wcmatch import wcmatch as W
    with _Recorder() as rec:
        R = _call(lambda: W.WcMatch(root, pattern, None, flags).match())
    if isinstance(R, str):
        return {'viol': [f'WcMatch raised {R}'], 'obs': R}
    viol = []
    listed = sorted({x for x in (_rel(p, root) for p in rec.paths) if x is not None})
    if not flags & W.SYMLINKS:
        bad = [d for d in listed if d and _has_link_component(root, d)]
        if bad:
            viol.append(f'WcMatch listed directories through a symlink without SYMLINKS: {bad}')
        through = [r for r in R if _has_link_component(root, os.path.dirname(_rel(r, root) or ''))]
        if through:
            viol.append(f'WcMatch returned files below a symlinked directory without SYMLINKS: {through}')
    return {'viol': viol, 'obs': (sorted(_rel(r, root) for r in R), listed)}


def c06_classify(params, tree, res):
    import re
    pats = params[0]
    if isinstance(pats, str) and re.search(r'(?:^|/)\*\*\*/+\*\*(?:/|$)|(?:^|/)\*\*/+\*\*\*(?:/|$)', pats):
        # adjacent `***` and `**` segments are folded into one globstar: the matcher keeps the first one's kind, the walker the last one's
        return 'adjacent-globstar-kinds-merged-differently'
    return None


# ---------------------------------------------------------------------------------------------------------
# C12: glob results are well-formed and independent of how the root is given

def c12(root, pats, flags, exclude, slots):
    import pathlib
    from wcmatch import glob as G
    viol = []
    kw = {'flags': flags}
    if exclude is not None:
        kw['exclude'] = exclude
    plist = [pats] if isinstance(pats, str) else list(pats)
    plist = [p.replace('$ROOT', root) for p in plist]
    pats_s = plist[0] if isinstance(pats, str) else plist
    old = os.getcwd()
    os.chdir('/')                       # the working directory must not matter when a root is given
    try:
        R = _call(G.glob, pats_s, root_dir=root, **kw)
        if isinstance(R, str):
            return {'viol': [f'glob raised {R}'] if R != 'EXC:PatternLimitException' else [], 'obs': R}
        if any(r.count('/') > 20 for r in R):
            return {'viol': [], 'obs': None, 'eloop': True}
        positives = [p for p in plist if not ((flags & G.NEGATE) and p[:1] == ('-' if flags & G.MINUSNEGATE else '!') and not (p[1:2] == '(' and flags & G.EXTGLOB and not flags & G.MINUSNEGATE))]
        all_abs = all(p.startswith('/') for p in positives) if positives else False
        all_rel = all(not p.startswith('/') for p in positives)
        all_trailing = bool(positives) and all(p.endswith('/') and not p.endswith('\\/') for p in positives) and not flags & (G.BRACE | G.SPLIT)
        for r in R:
            full = r if r.startswith('/') else os.path.join(root, r)
            if not os.path.lexists(full):
                viol.append(f'result {r!r} does not exist')
                continue
            isdir = os.path.isdir(full)
            if all_rel and r.startswith('/'):
                viol.append(f'relative pattern produced absolute result {r!r}')
            if all_abs and not r.startswith('/'):
                viol.append(f'absolute pattern produced relative result {r!r}')
            if r.endswith('/') and not isdir:
                viol.append(f'result {r!r} ends with a separator but is not a directory')
            if isdir and (all_trailing or flags & G.MARK) and not r.endswith('/'):
                viol.append(f'directory result {r!r} lacks the trailing separator (pattern ended with one / MARK)')
            if flags & G.NODIR and isdir:
                viol.append(f'NODIR returned the directory {r!r}')
        it = _call(lambda: list(G.iglob(pats_s, root_dir=root, **kw)))
        if it != R:
            viol.append(f'iglob {it} != glob {R}')
        # the same results however the root is given
        variants = {}
        bp = [os.fsencode(p) for p in plist]
        bkw = dict(kw)
        if exclude is not None:
            bkw['exclude'] = [os.fsencode(e) for e in ([exclude] if isinstance(exclude, str) else exclude)]
        rb = _call(G.glob, bp[0] if isinstance(pats, str) else bp, root_dir=os.fsencode(root), **bkw)
        variants['bytes root_dir'] = [os.fsdecode(x) for x in rb] if isinstance(rb, list) else rb
        variants['PathLike root_dir'] = _call(G.glob, pats_s, root_dir=pathlib.PurePosixPath(root), **kw)
        fd = os.open(root, os.O_RDONLY | getattr(os, 'O_DIRECTORY', 0))
        try:
            variants['dir_fd'] = _call(G.glob, pats_s, dir_fd=fd, **kw)
        finally:
            os.close(fd)
        # a root_dir given relative to a dir_fd of the parent directory
        parent, base = os.path.split(root.rstrip('/'))
        fd = os.open(parent or '/', os.O_RDONLY | getattr(os, 'O_DIRECTORY', 0))
        try:
            variants['dir_fd of the parent + relative root_dir'] = _call(G.glob, pats_s, dir_fd=fd, root_dir=base, **kw)
        finally:
            os.close(fd)
        os.chdir(root)
        variants['cwd'] = _call(G.glob, pats_s, **kw)
        os.chdir('/')
        for name, val in variants.items():
            if val != R:
                viol.append(f'root given as {name}: {val} != root_dir str: {R}')
        return {'viol': viol, 'obs': [x.replace(root, '$ROOT') for x in R]}
    finally:
        os.chdir(old)


def c12_classify(params, tree, res):
    return None


# ---------------------------------------------------------------------------------------------------------
# C13: multi-pattern glob is the de-duplicated union minus exclusions

def c13(root, combined, pieces, excl, flags, use_kw, slots):
    """combined: what is handed to glob (list or SPLIT/BRACE string, exclusions inline unless use_kw);
    pieces: the expanded inclusion patterns in order; excl: exclusion patterns."""
    from wcmatch import glob as G
    viol = []
    # `$ROOT` in a pattern stands for the absolute path of the tree root (absolute patterns mixed with relative ones)
    sub = (lambda p: p.replace('$ROOT', root))
    combined = sub(combined) if isinstance(combined, str) else [sub(p) for p in combined]
    pieces = [sub(p) for p in pieces]
    kw = {'flags': flags, 'root_dir': root}
    if use_kw and excl:
        kw['exclude'] = list(excl)
    full = _call(G.glob, combined, **kw)
    if isinstance(full, str):
        return {'viol': [f'glob raised {full}'], 'obs': full}
    if any(r.count('/') > 20 for r in full):
        return {'viol': [], 'obs': None, 'eloop': True}
    sflags = flags & ~(G.NEGATE | G.NEGATEALL | G.SPLIT | G.BRACE | G.MINUSNEGATE | G.NOUNIQUE)
    ci = bool(flags & G.IGNORECASE) and not flags & G.CASE
    singles = []
    for p in pieces:
        r = _call(G.glob, p, flags=sflags | G.NOUNIQUE, root_dir=root)
        if isinstance(r, str):
            return {'viol': [f'single glob({p!r}) raised {r}'], 'obs': r}
        singles.append(r)
    if not pieces and flags & G.NEGATEALL and excl:
        r = _call(G.glob, '**', flags=sflags | G.GLOBSTAR, root_dir=root)
        singles.append(r if isinstance(r, list) else [])

    def excluded(x):
        isdir = os.path.isdir(os.path.join(root, x))
        name = x if x.endswith('/') or not isdir else x + '/'
        for e in excl:
            if G.globmatch(name, e, flags=(sflags | G.DOTGLOB) & ~G.NODIR):
                return True
        if flags & G.NODIR and isdir:
            return True
        return False

    expect_concat = [x for r in singles for x in r if not excluded(x)]
    norm = (lambda x: strip_sep(x).lower()) if ci else strip_sep
    want = {norm(x) for x in expect_concat}
    got = {norm(x) for x in full}
    show = (lambda v: [x.replace(root, '$ROOT') for x in v])
    if got != want:
        viol.append(f'glob({show(combined) if not isinstance(combined, str) else combined.replace(root, "$ROOT")!r}) = {show(sorted(got))} but union of single '
                    f'patterns minus exclusions = {show(sorted(want))}')
    if flags & G.NOUNIQUE:
        if [strip_sep(x) for x in full] != [strip_sep(x) for x in expect_concat]:
            viol.append(f'NOUNIQUE result {full} is not the concatenation of the single results {expect_concat}')
    else:
        keys = [x.lower() if ci else x for x in full]
        if len(keys) != len(set(keys)):
            viol.append(f'duplicate paths in {full}')
    return {'viol': viol, 'obs': sorted(x.replace(root, '$ROOT') for x in full)}


def c13_classify(params, tree, res):
    return None


# ---------------------------------------------------------------------------------------------------------
# C16: pathlib methods are faithful views of wcmatch.glob

def c16(root, pat, flags, sub, slots):
    """sub: slot (relative directory) used as the path object's location ('' = the root itself)."""
    from wcmatch import glob as G, pathlib as P
    viol = []
    base = os.path.join(root, sub) if sub else root
    pobj = P.Path(base)
    pats = pat
    unique = not flags & G.NOUNIQUE
    old = os.getcwd()
    os.chdir('/')
    try:
        if not os.path.isdir(base):
            # glob on a non-directory path object yields nothing
            r = _call(lambda: list(pobj.glob(pats, flags=flags)))
            if r not in ([],) and not (isinstance(r, str)):
                viol.append(f'Path({sub!r}).glob on a non-directory returned {r}')
            return {'viol': viol, 'obs': None}
        plist = [pats] if isinstance(pats, str) else list(pats)
        is_abs = any(p.startswith('/') or (flags & G.BRACE and ',/' in p) or (flags & G.SPLIT and '|/' in p) for p in plist)
        got = _call(lambda: list(pobj.glob(pats, flags=flags)))
        rgot = _call(lambda: list(pobj.rglob(pats, flags=flags)))
        if is_abs:
            if got != 'EXC:ValueError':
                viol.append(f'Path.glob with an absolute pattern did not raise ValueError: {got}')
            if rgot != 'EXC:ValueError':
                viol.append(f'Path.rglob with an absolute pattern did not raise ValueError: {rgot}')
            return {'viol': viol, 'obs': (str(got), str(rgot))}
        if isinstance(got, str) or isinstance(rgot, str):
            return {'viol': [f'Path.glob/rglob raised {got} / {rgot}'], 'obs': (str(got), str(rgot))}
        if any(str(x).count('/') > 24 for x in got + rgot):
            return {'viol': [], 'obs': None, 'eloop': True}
        ref = _call(G.glob, pats, flags=flags | G.FORCEUNIX, root_dir=base)
        if isinstance(ref, str):
            return {'viol': [f'glob.glob raised {ref} but Path.glob returned {got}'], 'obs': ref}
        want = {pobj.joinpath(x) for x in ref}
        if set(got) != want:
            viol.append(f'Path({sub!r}).glob({pats!r}) = {sorted(map(str, set(got)))} but glob.glob joined = {sorted(map(str, want))}')
        if unique and len(got) != len(set(got)):
            viol.append(f'Path.glob returned a file twice: {sorted(map(str, got))}')
        if unique and len(rgot) != len(set(rgot)):
            viol.append(f'Path.rglob returned a file twice: {sorted(map(str, rgot))}')
        # user-supplied platform flags are ignored
        got_w = _call(lambda: list(pobj.glob(pats, flags=flags | G.FORCEWIN)))
        if got_w != got:
            viol.append(f'FORCEWIN changed Path.glob: {got_w} vs {got}')
        # rglob = the same pattern with an implicit leading recursive segment
        if isinstance(pats, str) and not flags & (G.BRACE | G.SPLIT | G.NEGATE):
            ref2 = _call(G.glob, '**/' + pats, flags=flags | G.GLOBSTAR | G.FORCEUNIX, root_dir=base)
            if isinstance(ref2, list):
                want2 = {pobj.joinpath(x) for x in ref2}
                if set(rgot) != want2:
                    viol.append(f'Path({sub!r}).rglob({pats!r}) = {sorted(map(str, set(rgot)))} but glob("**/"+p) joined = {sorted(map(str, want2))}')
        # globmatch / full_match of concrete paths = glob.globmatch on the path string (+ separator for directories)
        os.chdir(base)
        rg_here = set(_call(lambda: [str(x) for x in P.Path('.').rglob(pats, flags=flags)]) or [])
        for s in slots:
            q = P.Path(s)
            if not os.path.lexists(s):
                continue
            name = s + ('/' if os.path.isdir(s) else '')
            a = _call(q.globmatch, pats, flags=flags)
            b = _call(G.globmatch, name, pats, flags=flags | G.FORCEUNIX)
            c = _call(q.full_match, pats, flags=flags)
            if a != b or c != b:
                viol.append(f'Path({s!r}).globmatch={a} full_match={c} but glob.globmatch({name!r})={b}')
            m = _call(q.match, pats, flags=flags | G.REALPATH)
            dotseg = isinstance(pats, str) and any(c in ('.', '..') for c in pats.split('/'))
            if isinstance(m, bool) and isinstance(pats, str) and not flags & G.SCANDOTDIR and not dotseg and m != (s in rg_here):
                viol.append(f'Path({s!r}).match({pats!r}, REALPATH)={m} but Path(".").rglob yields it: {s in rg_here}')
        return {'viol': viol, 'obs': (sorted(map(str, got)), sorted(map(str, rgot)))}
    finally:
        os.chdir(old)


def c16_classify(params, tree, res):
    import re
    pat, flags, sub = params
    from wcmatch import glob as G
    if isinstance(pat, str) and pat.startswith('**') and not flags & G.DOTGLOB:
        # PurePath.match('**...') accepts hidden segments (the ** after the implicit right-anchoring prefix is not dot-guarded)
        ok = True
        for m in res['viol']:
            mm = re.match(r"Path\('([^']*)'\)\.match\(.*REALPATH\)=True but Path\(\"\.\"\)\.rglob yields it: False", m)
            if not (mm and any(c.startswith('.') for c in mm.group(1).split('/'))):
                ok = False
        if ok and res['viol']:
            return 'match-leading-globstar-accepts-hidden'
    return None


# ---------------------------------------------------------------------------------------------------------
# C14: WcMatch returns exactly the files a filtered directory walk selects

def _single(name, pat, flags, pathmode):
    """Single, non-negated pattern (C01/C02 meaning) through the real fnmatch/globmatch with dot-matching forced."""
    from wcmatch import fnmatch as F, glob as G, wcmatch as W
    if pathmode:
        fl = G.DOTGLOB
        for w, g in ((W.EXTMATCH, G.EXTGLOB), (W.BRACE, G.BRACE), (W.GLOBSTAR, G.GLOBSTAR), (W.MATCHBASE, G.MATCHBASE), (W.IGNORECASE, G.IGNORECASE), (W.CASE, G.CASE),
                     (W.RAWCHARS, G.RAWCHARS)):
            if flags & w:
                fl |= g
        p = pat
        if p.startswith('/'):
            p = p.lstrip('/')                  # anchored to the root: leading separators are stripped, MATCHBASE does not apply
            fl &= ~G.MATCHBASE
        return bool(p) and G.globmatch(name, p, flags=fl)
    fl = F.DOTMATCH
    for w, f in ((W.EXTMATCH, F.EXTMATCH), (W.BRACE, F.BRACE), (W.IGNORECASE, F.IGNORECASE), (W.CASE, F.CASE), (W.RAWCHARS, F.RAWCHARS)):
        if flags & w:
            fl |= f
    return bool(pat) and F.fnmatch(name, pat, flags=fl)


def _listmatch(name, inc, exc, flags, pathmode):
    hit = any(_single(name, p, flags, pathmode) for p in inc) if inc else bool(exc)     # exclusions alone: everything except
    return hit and not any(_single(name, e, flags, pathmode) for e in exc)


def c14(root, finc, fexc, dinc, dexc, flags, slots):
    """finc/fexc: inclusion / exclusion pieces of the file pattern; dinc/dexc: pieces of the folder-exclude pattern."""
    from wcmatch import wcmatch as W
    neg = '-' if flags & W.MINUSNEGATE else '!'
    fpat = '|'.join(list(finc) + [neg + e for e in fexc])
    dpat = '|'.join(list(dinc) + [neg + e for e in dexc])
    w = _call(lambda: W.WcMatch(root, fpat, dpat, flags))
    if isinstance(w, str):
        return {'viol': [f'WcMatch() raised {w}'], 'obs': w}
    got = _call(w.match)
    if isinstance(got, str):
        return {'viol': [f'WcMatch.match raised {got}'], 'obs': got}
    skipped = w.get_skipped()
    # a second run of the same object over the unchanged tree: same files, same skipped count
    again = _call(lambda: list(w.imatch()))
    skipped2 = w.get_skipped()
    rec = bool(flags & W.RECURSIVE)
    hid = bool(flags & W.HIDDEN)
    sym = bool(flags & W.SYMLINKS)
    want = []
    visited = [0]
    budget = [0]

    def visit(d, rel):
        budget[0] += 1
        if budget[0] > 300:
            return
        try:
            with os.scandir(d) as it:
                ents = sorted(it, key=lambda e: e.name)
        except OSError:
            return
        dirs, files = [], []
        for e in ents:
            try:
                isd = e.is_dir()
            except OSError:
                isd = False
            (dirs if isd else files).append(e)
        for e in files:
            visited[0] += 1
            frel = rel + e.name
            name = frel if flags & W.FILEPATHNAME else e.name
            ok = True if not fpat else _listmatch(name, finc, fexc, flags, bool(flags & W.FILEPATHNAME))
            if ok and (hid or not e.name.startswith('.')):
                want.append(frel)
        for e in dirs:
            if not rec:
                continue
            drel = rel + e.name
            name = (drel + '/') if flags & W.DIRPATHNAME else e.name
            if dpat and _listmatch(name, dinc, dexc, flags, bool(flags & W.DIRPATHNAME)):
                continue
            if not hid and e.name.startswith('.'):
                continue
            if not sym and e.is_symlink():
                continue
            visit(os.path.join(d, e.name), drel + '/')

    visit(root, '')
    if budget[0] > 300:
        return {'viol': [], 'obs': None, 'eloop': True}
    pre = root.rstrip('/') + '/'
    got_rel = [g[len(pre):] if g.startswith(pre) else g for g in got]
    viol = []
    if len(got_rel) != len(set(got_rel)):
        viol.append(f'a file was yielded more than once: {sorted(got_rel)}')
    if sorted(set(got_rel)) != sorted(set(want)):
        viol.append(f'WcMatch({fpat!r}, exclude={dpat!r}) returned {sorted(set(got_rel))} but the filtered walk selects {sorted(set(want))}')
    if skipped != visited[0] - len(got_rel):
        viol.append(f'get_skipped()={skipped} but visited {visited[0]} files and returned {len(got_rel)}')
    if again != got or skipped2 != skipped:
        viol.append(f'second run of the same object: files {again == got}, get_skipped() {skipped2} vs {skipped}')
    return {'viol': viol, 'obs': (sorted(got_rel), skipped)}


def c14_classify(params, tree, res):
    return None


# ---------------------------------------------------------------------------------------------------------
# C18 (walk side): glob / WcMatch return the encoded paths in the same order for bytes arguments

def c18fs(root, kind, pats, flags, slots):
    from wcmatch import glob as G, wcmatch as W
    viol = []
    broot = os.fsencode(root)
    if kind == 'glob':
        plist = [pats] if isinstance(pats, str) else list(pats)
        bp = [os.fsencode(p) for p in plist]
        rs = _call(G.glob, pats, flags=flags, root_dir=root)
        rb = _call(G.glob, bp[0] if isinstance(pats, str) else bp, flags=flags, root_dir=broot)
        if isinstance(rs, list) and any(r.count('/') > 20 for r in rs):
            return {'viol': [], 'obs': None, 'eloop': True}
        rbd = [os.fsdecode(x) for x in rb] if isinstance(rb, list) else rb
        if rbd != rs:
            viol.append(f'glob bytes {rbd} != str {rs}')
        for a, b in ((pats, broot), (bp[0] if isinstance(pats, str) else bp, root)):
            r = _call(G.glob, a, flags=flags, root_dir=b)
            if r != 'EXC:TypeError':
                viol.append(f'mixed str/bytes pattern and root did not raise TypeError: {r}')
        return {'viol': viol, 'obs': rs}
    if pats is None:
        ws = _call(lambda: W.WcMatch(root, flags=flags).match())
        wb = _call(lambda: W.WcMatch(broot, flags=flags).match())
    else:
        ws = _call(lambda: W.WcMatch(root, pats, None, flags).match())
        wb = _call(lambda: W.WcMatch(broot, os.fsencode(pats), None, flags).match())
    wbd = [os.fsdecode(x) for x in wb] if isinstance(wb, list) else wb
    if wbd != ws:
        viol.append(f'WcMatch bytes {wbd} != str {ws}')
    return {'viol': viol, 'obs': [x.replace(root, '$ROOT') for x in ws] if isinstance(ws, list) else ws}


# ---------------------------------------------------------------------------------------------------------
# C20 (walk side): glob() decodes RAWCHARS escapes in inclusion AND exclusion patterns exactly as the decoded patterns behave

def c20fs(root, pat, excl, flags, slots):
    from wcmatch import glob as G
    from props.c20 import decode, Predicted
    viol = []

    def dec(t):
        try:
            return decode(t, False), None
        except Predicted as ex:
            return None, ex.name
    dp, e1_ = dec(pat)
    de, e2_ = dec(excl) if excl is not None else (None, None)
    kw = {'flags': flags | G.RAWCHARS, 'root_dir': root}
    if excl is not None:
        kw['exclude'] = excl
    got = _call(G.glob, pat, **kw)
    if e1_ or e2_:
        want = 'EXC:' + (e1_ or e2_)
        ok = got == want or (want == 'EXC:KeyError' and got in ('EXC:KeyError', 'EXC:LookupError'))
        return {'viol': [] if ok else [f'glob({pat!r}, exclude={excl!r}, RAWCHARS) -> {got}, the decoder predicts {want}'], 'obs': str(got)}
    kw2 = {'flags': flags, 'root_dir': root}
    if excl is not None:
        kw2['exclude'] = de
    want = _call(G.glob, dp, **kw2)
    if got != want:
        viol.append(f'glob({pat!r}, exclude={excl!r}, RAWCHARS) = {got} but glob of the decoded patterns ({dp!r}, exclude={de!r}) = {want}')
    return {'viol': viol, 'obs': got if isinstance(got, list) else str(got)}


# ---------------------------------------------------------------------------------------------------------
# C09 (walk side): glob(escape(path)) returns exactly that path

def c09fs(root, flags, slots):
    from wcmatch import glob as G
    viol = []
    seen = []
    for s_ in slots:
        full = os.path.join(root, s_)
        if not os.path.lexists(full):
            continue
        seen.append(s_)
        got = _call(G.glob, G.escape(s_, unix=True), flags=flags, root_dir=root)
        if not isinstance(got, list) or [strip_sep(x) for x in got] != [s_]:
            viol.append(f'glob(escape({s_!r})) = {got}, expected exactly [{s_!r}]')
        m = _call(G.globmatch, s_, G.escape(s_, unix=True), flags=flags | G.REALPATH, root_dir=root)
        if m is not True:
            viol.append(f'globmatch({s_!r}, escape, REALPATH) = {m}')
    return {'viol': viol, 'obs': seen}


# ---------------------------------------------------------------------------------------------------------
# C07 (file-system side): with REALPATH, and in glob(), a list with exclusions decomposes into single-pattern REALPATH matches

def c07fs(root, incs, excs, flags, slots):
    """incs/excs: tuples of single patterns.  The exclusions are evaluated the way the implementation documents them: dot-matching forced,
    links followed (an exclusion is not a traversal)."""
    from wcmatch import glob as G
    viol = []
    incs, excs = list(incs), list(excs)
    rf = flags | G.REALPATH
    ef = flags | G.REALPATH | G.DOTGLOB | G.FOLLOW
    inline_ok = all(e and not e.startswith('(') for e in excs) and all(not p.startswith('!') or p.startswith('!(') for p in incs)
    seen = []
    for cand in slot_candidates(slots):
        if not os.path.lexists(os.path.join(root, cand)):
            continue
        single_i = [_call(G.globmatch, cand, p, flags=rf, root_dir=root) for p in incs]
        single_e = [_call(G.globmatch, cand, e, flags=ef, root_dir=root) for e in excs]
        if any(not isinstance(x, bool) for x in single_i + single_e):
            continue
        want = any(single_i) and not any(single_e)
        got = _call(G.globmatch, cand, incs, flags=rf, root_dir=root, exclude=excs or None)
        seen.append((cand, got))
        if got is not want:
            viol.append(f'globmatch({cand!r}, {incs}, exclude={excs}, REALPATH) = {got}; single inclusions {single_i}, single exclusions (DOTGLOB) {single_e}')
        if inline_ok and excs:
            got2 = _call(G.globmatch, cand, incs + ['!' + e for e in excs], flags=rf | G.NEGATE, root_dir=root)
            if got2 is not want:
                viol.append(f'globmatch({cand!r}, {incs} + negated {excs}, NEGATE|REALPATH) = {got2}; single inclusions {single_i}, single exclusions {single_e}')
    # the walk: glob(list, exclude=) == the results of the inclusions alone minus what a single exclusion accepts
    if excs:
        plain = _call(G.glob, incs, flags=flags, root_dir=root)
        both = _call(G.glob, incs, flags=flags, root_dir=root, exclude=excs)
        if isinstance(plain, list) and isinstance(both, list):
            keep = []
            for x in plain:
                ex = [_call(G.globmatch, x, e, flags=ef, root_dir=root) for e in excs]
                if any(not isinstance(v, bool) for v in ex):
                    keep = None
                    break
                if not any(ex):
                    keep.append(x)
            if keep is not None and sorted(keep) != sorted(both):
                viol.append(f'glob({incs}, exclude={excs}) = {sorted(both)} but inclusions alone give {sorted(plain)} of which single exclusions keep {sorted(keep)}')
            seen.append(('glob', sorted(both)))
    return {'viol': viol, 'obs': seen}

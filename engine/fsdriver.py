"""Driver for the E3 (symfs) properties: explore every feasible tree of a template for each parameter combination,
collect check violations, classify listed findings, replay the rest on a materialised tree, validate stub fidelity."""
from __future__ import annotations
import os
import random
import shutil
import tempfile
import time

from engine import common, symfs, fscheck, replay as replaymod


def explore_combo(combo, max_paths, classify_name):
    """combo = (check_name, template_name, params tuple).  Runs in a worker."""
    check_name, tname, params = combo
    tpl = symfs.templates()[tname]
    fn = getattr(fscheck, check_name)
    classify = getattr(fscheck, check_name + '_classify', None)          # region predicates of listed findings, per check function
    out = {'combo': combo, 'paths': 0, 'viol': [], 'classes': {}, 'known': {}, 'fidelity': [], 'budget': 0, 'exc': [], 'nonempty': 0, 'links_seen': 0}
    t = time.time()
    rnd = random.Random(hash(repr(combo)) & 0xFFFF)

    def run(fs):
        return fn(symfs.ROOT, *params, slots=tpl.cands)

    wall_cap = 120 if max_paths <= 4000 else 420       # seconds per combo (quick / thorough): a combo cut here is counted as not exhausted
    capped = False
    for fs, res in symfs.explore(tpl, run, max_paths=max_paths):
        if time.time() - t > wall_cap:
            capped = True
            break
        out['paths'] += 1
        if isinstance(res, symfs.BudgetExceeded):
            out['budget'] += 1
            tree = fs.describe()
            if fscheck.termination_claimed(check_name, params):
                out['viol'].append((tree, [f'step budget exceeded: {res}'], None))
            continue
        if isinstance(res, Exception):
            out['exc'].append(repr(res))
            continue
        if res.get('obs'):
            out['nonempty'] += 1
        if any(k == symfs.LINK for k in fs.kmemo.values()):
            out['links_seen'] += 1
        if res['viol']:
            tree = fs.describe()
            key = classify(params, tree, res) if classify else None
            if key:
                out['known'][key] = out['known'].get(key, 0) + 1
                if len([v for v in out['viol'] if v[2] == key]) < 1:
                    out['viol'].append((tree, res['viol'], key))
            else:
                cls = res['viol'][0][:50]
                out['classes'][cls] = out['classes'].get(cls, 0) + 1
                if out['classes'][cls] <= 2:
                    out['viol'].append((tree, res['viol'], None))
        elif len(out['fidelity']) < 3 and (out['paths'] <= 2 or rnd.random() < 0.02):
            out['fidelity'].append((fs.describe(), res.get('obs')))
    ex = symfs.explore.last
    out['solver_calls'] = ex.solver_calls
    out['solver_s'] = round(ex.solver_time, 3)
    out['forks'] = ex.forks
    out['complete'] = out['paths'] < max_paths and not capped
    out['time_s'] = round(time.time() - t, 2)
    return out


class _Alarm(Exception):
    pass


def on_real_tree(tree, func, seconds=10):
    """Run func(root) on the materialised tree under a wall-clock guard (cyclic links + FOLLOW can take very long)."""
    import signal

    def handler(signum, frame):
        raise _Alarm()
    parent = tempfile.mkdtemp(prefix='wcverif_fs_')          # a private parent: whatever escapes the tree through `..` sees nothing else
    root = os.path.join(parent, 'wcvroot')
    os.mkdir(root)
    old = signal.signal(signal.SIGALRM, handler)
    signal.alarm(seconds)
    try:
        replaymod.materialise(tree, root)
        return func(root)
    except _Alarm:
        return 'TIMEOUT'
    finally:
        signal.alarm(0)
        signal.signal(signal.SIGALRM, old)
        shutil.rmtree(parent, ignore_errors=True)


def normalise_obs(o, root):
    """Observations may contain the root path (absolute patterns): make them comparable between stub and real runs."""
    # only an absolute spelling of the root is replaced (`../wcvroot`, reached from the tree through `..`, is a relative path, not the root)
    if isinstance(o, str):
        return '$ROOT' + o[len(root):] if o.startswith(root) else o.replace(' ' + root, ' $ROOT')
    if isinstance(o, bytes):
        rb = os.fsencode(root)
        return b'$ROOT' + o[len(rb):] if o.startswith(rb) else o
    if isinstance(o, (list, tuple)):
        return [normalise_obs(x, root) for x in o]
    if isinstance(o, dict):
        return {k: normalise_obs(v, root) for k, v in o.items()}
    return o


def run_property(ctx, combos, classify_name, max_paths, describe_params, known_from=(), own=None):
    """Explore all combos; fill ctx (violations via replay, inconclusive, coverage).  known_from: other properties whose listed
    findings (same root cause at the walker level) are taken as stated exclusions without a KNOWN-FINDING line for this property."""
    if own is None:
        own = not known_from          # (walk sides of E1 properties have already loaded and reported their own findings)
    live = common.check_known_witnesses(ctx) if own else set()
    for other in known_from:
        live |= common.check_known_witnesses(ctx, other, report=False)
    results = common.pmap(explore_combo, combos, ctx.workers, extra=(max_paths, classify_name), chunk=1)
    tot_paths = 0
    solver_calls = 0
    solver_s = 0.0
    nontrivial = 0
    samples = []
    known_hits = {}
    incomplete = 0
    fidelity_checked = 0
    for res in results:
        check_name, tname, params = res['combo']
        tot_paths += res['paths']
        solver_calls += res['solver_calls']
        solver_s += res['solver_s']
        if res['nonempty'] and res['paths'] > 1:
            nontrivial += 1
        if not res['complete']:
            incomplete += 1
        for e in res['exc'][:2]:
            ctx.inconclusive.append({'why': 'check function raised', 'combo': res['combo'], 'exc': e})
        for k, n in res['known'].items():
            known_hits[k] = known_hits.get(k, 0) + n
        fn = getattr(fscheck, check_name)
        tpl = symfs.templates()[tname]
        # stub fidelity: the same check on the materialised tree must observe the same thing
        for tree, obs in res['fidelity'][:2]:
            fidelity_checked += 1
            a = normalise_obs(obs, symfs.ROOT)
            b = on_real_tree(tree, lambda root: normalise_obs(fn(root, *params, slots=tpl.cands).get('obs'), root))
            if b == 'TIMEOUT':
                continue
            if a != b:
                ctx.inconclusive.append({'why': 'stub fidelity mismatch', 'combo': res['combo'], 'tree': tree, 'stub': a, 'real': b})
        for tree, msgs, key in res['viol']:
            if len(ctx.violations) >= 12 or len(ctx.inconclusive) >= 12:
                break
            if key is not None:
                if key in live:
                    continue
                # classified as a listed region whose finding is not live (fixed or unlisted): treat as a candidate violation
            rep = {'describe': f'{ctx.prop} {check_name} {describe_params(params)} on tree {tree["entries"]}: {msgs[0][:200]}',
                   'tree': tree, 'scandir_order': [x.rpartition('/')[2] for x in tpl.slots],
                   'steps': [{'as': 'v', 'call': 'engine.replayfn.fs_check', 'args': [check_name, '$ROOT', list(params), tpl.cands]}],
                   'assert': 'v == []'}
            common.confirm(ctx, rep)
        if len(samples) < 6 and res['nonempty'] and res['paths'] > 20:
            samples.append({'check': check_name, 'template': tname, 'slots': tpl.slots, 'link_targets': tpl.targets, 'params': describe_params(params),
                            'paths_explored': res['paths'], 'solver_calls': res['solver_calls'], 'exhaustive_for_template': res['complete']})
    ctx.coverage.update({
        'evaluations': tot_paths, 'distinct_nontrivial': nontrivial,
        'rule': 'one combo = (template, parameters); every feasible assignment of entry kinds / link targets that the code can observe is one '
                'explored path (evaluations); non-trivial combo = more than one path and at least one path with a non-empty result',
        'samples': samples, 'states': tot_paths, 'transitions': solver_calls, 'traces_validated_against_impl': fidelity_checked,
        'combos': len(combos), 'combos_not_exhausted_within_path_cap': incomplete, 'solver_calls': solver_calls, 'solver_time_s': round(solver_s, 1),
        'known_region_hits': known_hits,
        'bounds': {'templates': {n: {'slots': t.slots, 'targets': t.targets} for n, t in symfs.templates().items()}, 'max_paths_per_combo': max_paths, 'max_seconds_per_combo': 120 if max_paths <= 4000 else 420},
        'stubs': ['os.scandir', 'os.stat', 'os.lstat', 'os.open', 'os.close', 'os.getcwd', 'os.chdir', 'os.readlink (symbolic tree; ELOOP after 40 hops)'],
        'exhaustive': not ctx.inconclusive and incomplete == 0,
        'outside_claim': ['trees larger than the templates', 'entry names other than the templates\' names (name content is E1\'s job)'],
    })
    ctx.assumptions += ['z3 decides feasibility of each kind/target decision under the well-formedness invariants',
                        'stub os layer faithful to the kernel (validated per run by re-running sampled paths on materialised trees)']

"""Pattern generators: ASTs rendered to wcmatch pattern text (bounded-exhaustive pools + seeded random deeper).

Patterns are generated *from* the AST, so no second parser of pattern text exists that could disagree
with wcmatch about what a string means.

Segment-level nodes (hashable tuples):
  ('lit', ch, esc)          literal character; esc=True renders a backslash before it
  ('q',)                    ?
  ('star', n)               n consecutive '*' (n>=1) *inside* a segment: any run
  ('cls', text, neg, ivs)   bracket expression, `ivs` = positive intervals before negation
  ('grp', kind, alts)       kind in ? * + @ ; alts = tuple of node tuples
  ('neg', alts)             !( ... )
Path level:  tuple of ('seg', nodes) | ('sep', text) | ('gs', n)   (whole-segment ** / ***)
"""
from __future__ import annotations
import itertools
import random

RAW_LITS = ['a', 'b', 'A', '.', '-', '^', ']']
ESC_LITS = ['*', '?', '[', '\\', '(', '|', '!', 'a', '.']

BRACKETS = [
    ('[ab]', False, ((97, 98),)),
    ('[!a]', True, ((97, 97),)),
    ('[^a-b]', True, ((97, 98),)),
    ('[a-c]', False, ((97, 99),)),
    ('[[:alpha:]]', False, ((65, 90), (97, 122))),
    ('[[:upper:]b]', False, ((65, 90), (98, 98))),
    ('[.]', False, ((46, 46),)),
    ('[!.]', True, ((46, 46),)),
    ('[]a]', False, ((93, 93), (97, 97))),
    ('[a-]', False, ((45, 45), (97, 97))),
    ('[\\]]', False, ((93, 93),)),
    ('[!]a]', True, ((93, 93), (97, 97))),
    ('[A-b]', False, ((65, 98),)),
    ('[*?]', False, ((42, 42), (63, 63))),
    ('[[:digit:][:space:]]', False, ((48, 57), (9, 13), (32, 32))),
    ('[^[:lower:]]', True, ((97, 122),)),
]

POSIX = {
    'alnum': ((48, 57), (65, 90), (97, 122)), 'alpha': ((65, 90), (97, 122)), 'ascii': ((0, 127),),
    'blank': ((9, 9), (32, 32)), 'cntrl': ((0, 31), (127, 127)), 'digit': ((48, 57),), 'graph': ((33, 126),),
    'lower': ((97, 122),), 'print': ((32, 126),), 'punct': ((33, 47), (58, 64), (91, 96), (123, 126)),
    'space': ((9, 13), (32, 32)), 'upper': ((65, 90),), 'word': ((48, 57), (65, 90), (95, 95), (97, 122)),
    'xdigit': ((48, 57), (65, 70), (97, 102)),
}


def lit(ch, esc=False):
    return ('lit', ch, esc)


Q = ('q',)
STAR = ('star', 1)


def cls(i):
    t, n, iv = BRACKETS[i]
    return ('cls', t, n, iv)


def atoms_basic():
    out = [lit(c) for c in RAW_LITS] + [lit(c, True) for c in ESC_LITS] + [Q, STAR]
    out += [cls(i) for i in range(len(BRACKETS))]
    return out


def atoms_small():
    """A reduced atom set used inside groups and for longer sequences."""
    return [lit('a'), lit('b'), lit('.'), lit('A'), lit('*', True), Q, STAR, cls(0), cls(1), cls(4), cls(6), cls(7)]


# ---------------------------------------------------------------------------------------------------
# rendering

def render_nodes(nodes):
    out = []
    for n in nodes:
        k = n[0]
        if k == 'lit':
            out.append(('\\' if n[2] else '') + n[1])
        elif k == 'q':
            out.append('?')
        elif k == 'star':
            out.append('*' * n[1])
        elif k == 'cls':
            out.append(n[1])
        elif k == 'grp':
            out.append(n[1] + '(' + '|'.join(render_nodes(a) for a in n[2]) + ')')
        elif k == 'neg':
            out.append('!(' + '|'.join(render_nodes(a) for a in n[1]) + ')')
        else:
            raise ValueError(n)
    return ''.join(out)


def render_path(items):
    out = []
    for it in items:
        if it[0] == 'seg':
            out.append(render_nodes(it[1]))
        elif it[0] == 'sep':
            out.append(it[1])
        elif it[0] == 'gs':
            out.append('*' * it[1])
        else:
            raise ValueError(it)
    return ''.join(out)


def has_kind(nodes, kind):
    for n in nodes:
        if n[0] == kind:
            return True
        if n[0] == 'grp' and any(has_kind(a, kind) for a in n[2]):
            return True
        if n[0] == 'neg' and any(has_kind(a, kind) for a in n[1]):
            return True
    return False


def depth(nodes):
    d = 0
    for n in nodes:
        if n[0] == 'grp':
            d = max(d, 1 + max((depth(a) for a in n[2]), default=0))
        elif n[0] == 'neg':
            d = max(d, 1 + max((depth(a) for a in n[1]), default=0))
    return d


def count_groups(nodes):
    c = 0
    for n in nodes:
        if n[0] == 'grp':
            c += 1 + sum(count_groups(a) for a in n[2])
        elif n[0] == 'neg':
            c += 1 + sum(count_groups(a) for a in n[1])
    return c


# ---------------------------------------------------------------------------------------------------
# pools

def group_bodies(level):
    """Alternative lists for groups. level 0: flat alternatives; level 1: one nested group inside."""
    sm = atoms_small()
    single = [(a,) for a in sm] + [(lit('a'), lit('b')), (STAR, lit('a')), (Q, lit('.')), (lit('.'), STAR),
                                  (lit('a'), Q), (cls(1), STAR), ()]
    bodies = [(s,) for s in single]
    bodies += [((lit('a'),), (lit('b'), Q)), ((lit('a'),), ()), ((STAR, lit('a')), (lit('b'),)),
               ((lit('.'),), (lit('a'),)), ((Q,), (lit('a'), lit('b'))), ((lit('a'), lit('b')), (lit('a'),)),
               ((cls(4),), (lit('.'), lit('a')))]
    if level >= 1:
        inner = [('grp', k, b) for k in '?*+@' for b in (((lit('a'),),), ((lit('a'),), (lit('b'), Q)), ((Q,),))]
        inner += [('neg', ((lit('a'),),)), ('neg', ((lit('a'),), (lit('b'), STAR)))]
        for g in inner:
            bodies += [((g,),), ((g, lit('a')),), ((lit('b'), g),), ((g,), (lit('b'),))]
    return bodies


def groups(level, with_neg=True):
    out = []
    for k in '?*+@':
        for b in group_bodies(level):
            out.append(('grp', k, b))
    if with_neg:
        for b in group_bodies(0):
            out.append(('neg', b))
        if level >= 1:
            for b in group_bodies(1):
                if len(out) % 3 == 0:
                    out.append(('neg', b))
    return out


REGEXY = ['(?#)', '(?:a)', '(?i)a', '(?s:a)', 'a{2}', 'a+', 'a$', '^a', '(?=a)', '(?!a)', '(?<=a)b', '(?P<n>a)', '#a', 'a #b', '$', '(a)', '{1,}', '(?#a)b']
REGEXY_SETS = ['(?#)', 'a(?#)', '(?#)a', '(?:)', '$^', '{2}', '+*?', '(?i)', '#', '.$', '(|)', ')(', '&&', '||', '~~']


def _regexy_nodes(r):
    # `?` and `*` keep their wildcard meaning in the AST; everything else here is a literal character for wcmatch
    return tuple(Q if c == '?' else STAR if c == '*' else lit(c) for c in r)


def regexy_segments():
    """Pattern texts that are regex syntax when read as a regex: as runs outside brackets and as the member list of a bracket
    expression (the translation must not let any of it through unescaped, nor confuse it with its own internal markers)."""
    out = []
    for r in REGEXY:
        out.append(_regexy_nodes(r))
        out.append((lit('b'),) + _regexy_nodes(r) + (STAR,))
    for r in REGEXY_SETS:
        ivs = tuple(sorted({(ord(c), ord(c)) for c in r}))
        if r[0] not in '!^-':
            out.append((('cls', '[' + r + ']', False, ivs),))
            out.append((lit('a'), ('cls', '[' + r + ']', False, ivs), STAR))
        out.append((('cls', '[!' + r + ']', True, ivs),))
    return out


def segment_pool(tier, rnd, ext=True, budget=None):
    """Deterministic, de-duplicated list of single-segment patterns (node tuples)."""
    seen = set()
    out = []

    def add(nodes):
        nodes = tuple(nodes)
        if nodes and nodes not in seen:
            seen.add(nodes)
            out.append(nodes)

    A = atoms_basic()
    S = atoms_small()
    for a in A:
        add((a,))
    for t in regexy_segments():
        add(t)
    for a, b in itertools.product(A, S):
        add((a, b))
    for a, b in itertools.product(S, A):
        add((a, b))
    for t in itertools.product(S, repeat=3):
        add(t)
    if ext:
        lvl = 0 if tier == 'quick' else 1
        G = groups(lvl)
        ctx_atoms = [lit('a'), lit('.'), Q, STAR, cls(1), lit('b')]
        for g in G:
            add((g,))
            for a in ctx_atoms:
                add((a, g))
                add((g, a))
        G0 = groups(0)
        for g in G0[::3]:
            for a, b in itertools.product([lit('a'), STAR, lit('.')], repeat=2):
                add((a, g, b))
        for g1, g2 in itertools.product(G0[::5], G0[::7]):
            add((g1, g2))
        # star runs touching a group away from the start (`a**(b)`: the last star of a run may be the opener of a *( group)
        for g in G0[::2]:
            for pre in (lit('a'), Q, cls(0)):
                for st in (STAR, ('star', 2), ('star', 3)):
                    add((pre, st, g))
            add((lit('a'), g, ('star', 2)))
        if tier != 'quick':
            G1 = groups(1)
            for g in G1[::2]:
                for a in ctx_atoms:
                    add((a, g, lit('a')))
            for t in itertools.product(S, repeat=4):
                if rnd.random() < 0.12:
                    add(t)
    n_rand = 300 if tier == 'quick' else 3000
    for _ in range(n_rand):
        add(random_segment(rnd, 2 if tier == 'quick' else 3, ext))
    if budget and len(out) > budget:
        head = out[:budget // 2]
        tail = out[budget // 2:]
        rnd.shuffle(tail)
        out = head + tail[:budget - len(head)]
    return out


def random_segment(rnd, maxdepth, ext=True, maxlen=4):
    A = atoms_basic()

    def seq(d, ml):
        n = rnd.randint(0 if d < maxdepth else 1, ml)
        nodes = []
        for _ in range(n):
            r = rnd.random()
            if ext and d > 0 and r < 0.3:
                nodes.append(grp(d - 1))
            else:
                nodes.append(rnd.choice(A))
        return tuple(nodes)

    def grp(d):
        nalt = rnd.choice([1, 1, 2, 2, 3])
        alts = tuple(seq(d, 2) for _ in range(nalt))
        if rnd.random() < 0.2:
            return ('neg', alts)
        return ('grp', rnd.choice('?*+@'), alts)

    s = seq(maxdepth, maxlen)
    return s if s else (rnd.choice(A),)


# ---------------------------------------------------------------------------------------------------
# path patterns

SEG_ATOMS_PATH = None


def path_segments(tier, rnd, ext=True):
    """Small segment pool for multi-segment patterns."""
    S = [lit('a'), lit('b'), lit('.'), Q, STAR, cls(1), cls(0), lit('A')]
    out = [(a,) for a in S]
    out += [(lit('a'), STAR), (STAR, lit('a')), (lit('.'), STAR), (STAR, lit('.'), lit('a')), (Q, Q), (lit('.'), lit('a')),
            (lit('.'), lit('.')), (STAR, STAR), (lit('a'), STAR, STAR), (STAR, STAR, lit('a')), (cls(6), STAR), (lit('.', True), lit('a')),
            (STAR, Q), (STAR, cls(1), lit('a')), (lit('a'), lit('b'))]
    if ext:
        out += [(('grp', '?', ((lit('b'),),)),), (('grp', '*', ((lit('b'),),)),), (('grp', '+', ((lit('a'),), (lit('b'),))),),
                (('grp', '@', ((lit('a'),), (lit('.'), lit('b')))),), (('neg', ((lit('a'),),)),),
                (lit('a'), ('grp', '?', ((lit('b'),),))), (('grp', '?', ((lit('x'),),)), STAR),
                (('neg', ((lit('a'),), (lit('b'), STAR))),), (('grp', '*', ((Q,),)),), (('grp', '@', ((STAR,),)),),
                (('neg', ((lit('.'), STAR),)),), (('grp', '+', ((lit('.'),), (lit('a'),))),),
                (('neg', ((lit('a'),),)), lit('b'))]
    return out


def path_pool(tier, rnd, ext=True, budget=None):
    segs = path_segments(tier, rnd, ext)
    seps = [('sep', '/')]
    seen = set()
    out = []

    def add(items):
        items = tuple(items)
        if items not in seen:
            seen.add(items)
            out.append(items)

    gs2, gs3 = ('gs', 2), ('gs', 3)
    sl = ('sep', '/')
    units = [('seg', s) for s in segs] + [gs2, gs3]
    # one segment, optional leading / trailing separators
    for u in units:
        add((u,))
        add((u, sl))
        add((sl, u))
    small_units = [('seg', s) for s in segs[:12]] + [gs2, gs3]
    for u, v in itertools.product(units, small_units):
        add((u, sl, v))
    for u, v in itertools.product(small_units, units):
        add((u, sl, v))
    for u, v in itertools.product(small_units, small_units):
        add((u, ('sep', '//'), v))
        add((u, sl, v, sl))
        add((sl, u, sl, v))
    core = [('seg', (lit('a'),)), ('seg', (STAR,)), gs2, ('seg', (lit('.'), STAR)), ('seg', (Q,)), ('seg', (lit('.'),)),
            ('seg', (lit('.'), lit('.')))]
    if tier != 'quick':
        core += [gs3, ('seg', (cls(1),)), ('seg', (lit('a'), STAR))]
        if ext:
            core += [('seg', (('grp', '?', ((lit('b'),),)),)), ('seg', (('neg', ((lit('a'),),)),))]
    for t in itertools.product(core, repeat=3):
        add((t[0], sl, t[1], sl, t[2]))
    for t in itertools.product(core[:5], repeat=3):
        add((t[0], sl, t[1], sl, t[2], sl))
        add((sl, t[0], sl, t[1], sl, t[2]))
    if tier != 'quick':
        for t in itertools.product(core[:6], repeat=4):
            if rnd.random() < 0.3:
                add((t[0], sl, t[1], sl, t[2], sl, t[3]))
    # cross-segment parser-state leaks: every extended segment next to every other one
    if ext:
        ext_units = [('seg', s) for s in segs if any(n[0] in ('grp', 'neg') for n in s)]
        ext_units += [('seg', (('grp', '@', ((lit('.'), lit('x')),)),)), ('seg', (('neg', ((lit('.'), lit('a')),)),)),
                      ('seg', (('grp', '?', ((lit('.'),),)), STAR))]
        for u, v in itertools.product(ext_units, repeat=2):
            add((u, sl, v))
        for u, v in itertools.product(ext_units[::2], ext_units[1::2]):
            add((('seg', (lit('a'),)), sl, u, sl, v))
            add((u, sl, gs2, sl, v))
    # escaped separators and odd forms (MAY-only for specs; differential checks use them fully)
    add((('seg', (lit('a'),)), ('sep', '\\/'), ('seg', (lit('b'),))))
    add((('seg', (lit('a'),)), ('sep', '/'), ('sep', '\\/'), ('seg', (STAR,))))
    add((gs2, ('sep', '\\/'), ('seg', (lit('a'),))))
    n_rand = 200 if tier == 'quick' else 2500
    for _ in range(n_rand):
        k = rnd.randint(1, 3 if tier == 'quick' else 4)
        items = []
        if rnd.random() < 0.15:
            items.append(sl)
        for j in range(k):
            if j:
                items.append(('sep', '//') if rnd.random() < 0.1 else sl)
            r = rnd.random()
            if r < 0.2:
                items.append(gs2)
            elif r < 0.25:
                items.append(gs3)
            elif r < 0.7:
                items.append(('seg', rnd.choice(segs)))
            else:
                items.append(('seg', random_segment(rnd, 1 if tier == 'quick' else 2, ext, 3)))
        if rnd.random() < 0.2:
            items.append(sl)
        add(items)
    if budget and len(out) > budget:
        head = out[:budget // 2]
        tail = out[budget // 2:]
        rnd.shuffle(tail)
        out = head + tail[:budget - len(head)]
    return out


def odd_patterns():
    """Hand-listed malformed / unusual pattern texts used by the differential checks (no spec needed)."""
    return ['[', '[a', '[]', '[!]', '[a-', '@(', '@(a', '@(a|', '!(', '!(a', ')', '|', 'a|b', '\\', 'a\\', '[b-a]', '[!b-a]',
            '[a-b-c]', '[--a]', '[a\\]', '[[:alpha:]', '[[:foo:]]', '[[:alpha:]-z]', '[a-[:alpha:]]', '!(a)!(b)', '!(!(a))',
            '*(!(a))', '!(a|!(b))', '@(!(a)|b)', '!(a)*', '*!(a)', '!(*)', '!()', '@()', '?()', '+()', '*()', '@(|a)',
            '**(a)', '***', '+(', '+(a|*(b|?(c)))', '@(a)(b)', 'a@(b', '@(a\\)', '@(a\\', '@([a)])', '@([)])', '[(]', '@(a[)b])',
            '!(a)b!(c)', '!(a).', '!(.)', '!(.*)', '.!(a)', '?(.)a', '*(.)a', '@(.|a)b', '[.]a', '\\.a', '!(a)?(!(b))', '!(a)@(b)',
            '!(a)+(!(b)c)', '[\\-a]', '[a&&b]', '[a||b]', '[a~~b]', '[\\.]', '[\\/]', '{a,b}', '~', '-a', '!a', '\\!a', '\\-a']


# ---------------------------------------------------------------------------------------------------
# systematic bracket expressions

def _norm_iv(ivs):
    ivs = sorted(ivs)
    out = []
    for a, b in ivs:
        if out and a <= out[-1][1] + 1:
            out[-1] = (out[-1][0], max(out[-1][1], b))
        else:
            out.append((a, b))
    return tuple(out)


def bracket_components():
    comps = []
    for ch in 'abAz.*0_':
        comps.append((ch, ((ord(ch), ord(ch)),), 'char'))
    for ch in '^!':
        comps.append((ch, ((ord(ch), ord(ch)),), 'notfirst'))
    for a, b in (('a', 'c'), ('A', 'b'), ('0', '9'), ('+', '0'), ('a', 'a'), (' ', '~'), ('x', 'z')):
        comps.append((f'{a}-{b}', ((ord(a), ord(b)),), 'range'))
    for name in ('alpha', 'digit', 'upper', 'lower', 'space', 'punct', 'xdigit', 'alnum', 'word', 'blank', 'cntrl', 'graph', 'print', 'ascii'):
        comps.append((f'[:{name}:]', POSIX[name], 'posix'))
    for ch in ']-\\a':
        comps.append(('\\' + ch, ((ord(ch), ord(ch)),), 'esc'))
    return comps


def bracket_pool(tier, rnd):
    """('cls', text, neg, ivs) nodes built from components; semantics = union of the components, then negation."""
    comps = bracket_components()
    out = []
    seen = set()

    def add(prefix, parts, lead='', trail=''):
        text = '[' + prefix + lead + ''.join(p[0] for p in parts) + trail + ']'
        ivs = []
        for p in parts:
            ivs += list(p[1])
        if lead == ']':
            ivs.append((93, 93))
        if lead == '-' or trail == '-':
            ivs.append((45, 45))
        if text in seen:
            return
        seen.add(text)
        out.append(('cls', text, bool(prefix), _norm_iv(ivs)))

    for prefix in ('', '!', '^'):
        for c in comps:
            if c[2] != 'notfirst':
                add(prefix, [c])
            add(prefix, [comps[0], c])
        add(prefix, [comps[0]], lead=']')
        add(prefix, [comps[0]], lead='-')
        add(prefix, [comps[0]], trail='-')
        add(prefix, [comps[10]], trail='-')          # range then trailing hyphen
        add(prefix, [comps[17]], trail='-')          # posix then trailing hyphen
    pairs = [(a, b) for a in comps for b in comps if a is not b and a[2] != 'notfirst']
    if tier == 'quick':
        rnd.shuffle(pairs)
        pairs = pairs[:260]
    for a, b in pairs:
        add('', [a, b])
        if (len(out) % 3) == 0:
            add('!', [a, b])
    triples = 120 if tier == 'quick' else 1500
    for _ in range(triples):
        a, b, c = rnd.choice(comps), rnd.choice(comps), rnd.choice(comps)
        if a[2] == 'notfirst':
            continue
        add(rnd.choice(['', '', '!', '^']), [a, b, c])
    return out

"""Independent reference walks (oracles of C05 / C14 / C03-walk).  They interpret the generator's pattern AST segment by
segment against directory contents, reading the tree only through `os` (so they run on the symbolic stub layer and, in a
replay, on a real tree), and use the concrete matcher of engine/spec.py for names."""
from __future__ import annotations
import os

from engine import spec as S


def seg_matches(nodes, name, dot, ci):
    """Whole-name match of one segment pattern with the dot rule; . and .. only through a written leading dot."""
    n = len(name)
    ends = S.concrete_seq(nodes, name, 0, 0, True, dot, ci, False, seg_end=lambda p: p == n)
    if n not in ends:
        return False
    if name in ('.', '..'):
        w = S.concrete_seq(nodes, name, 0, 0, True, dot, ci, True, seg_end=lambda p: p == n)
        return n in w
    return True


def is_literal(nodes):
    return bool(nodes) and all(x[0] == 'lit' for x in nodes)


def lit_text(nodes):
    return ''.join(x[1] for x in nodes)


LISTED = None      # when set to a list, every directory the reference walk lists is appended (root-relative path as given)


def listdir(path):
    if LISTED is not None:
        LISTED.append(path)
    try:
        with os.scandir(path) as it:
            return sorted(e.name for e in it)
    except OSError:
        return None


def units_of(items, globstar, globstarlong):
    units = []
    lead = trail = False
    seen = False
    has_sep = False
    for it in items:
        if it[0] == 'sep':
            has_sep = True
            if not seen:
                lead = True
            else:
                trail = True
        else:
            seen = True
            trail = False
            if it[0] == 'gs':
                n = it[1]
                if (n == 2 and (globstar or globstarlong)) or (n == 3 and globstarlong):
                    units.append(('gs', n))
                else:
                    units.append(('seg', (('star', n),)))
            else:
                nodes = it[1]
                if S.seg_all_stars(nodes):
                    n = sum(x[1] for x in nodes)
                    if (n == 2 and (globstar or globstarlong)) or (n == 3 and globstarlong):
                        units.append(('gs', n))
                        continue
                units.append(('seg', nodes))
    return units, lead, trail, has_sep


def ref_glob(root, items, *, globstar=False, globstarlong=False, dot=False, ci=False, scandotdir=False, matchbase=False, follow=False,
             nodir=False):
    """(must, may): sets of root-relative result paths without trailing separators."""
    units, lead, trail, has_sep = units_of(items, globstar, globstarlong)
    must, may = set(), set()
    if lead or not units:
        return None            # absolute patterns are handled by the caller
    if matchbase and not has_sep:
        units = [('gs', 'base')] + units

    def full(rel):
        return os.path.join(root, rel) if rel else root

    def isdir(rel):
        return os.path.isdir(full(rel))

    def lexists(rel):
        return os.path.lexists(full(rel))

    def islink(rel):
        return os.path.islink(full(rel))

    def join(a, b):
        return b if not a else a + '/' + b

    def emit(rel, certain=True):
        if nodir and isdir(rel):
            return
        (must if certain else may).add(rel)
        may.add(rel)

    def descend(cur, gsn):
        """Directories reachable through zero or more levels under a globstar (cur included)."""
        out = [cur]
        stack = [cur]
        seen = 0
        while stack:
            d = stack.pop()
            names = listdir(full(d))
            seen += 1
            if names is None or seen > 400:
                continue
            for nm in names:
                if nm.startswith('.') and not dot:
                    continue
                p = join(d, nm)
                if not isdir(p):
                    continue
                link = islink(p)
                can = (not link) or (gsn == 3) or (follow and not globstarlong) or (gsn == 'base' and follow)
                out.append(p)
                if can:
                    stack.append(p)
                else:
                    out[-1] = (p, 'nolist')
        return out

    def walk(u, cur, certain=True):
        if LISTED is not None:
            LISTED.append(full(cur))          # the pattern goes through this directory
        kind, val = units[u]
        last = u == len(units) - 1
        if kind == 'gs':
            dirs = descend(cur, val)
            if last:
                # everything below (files and directories), never hidden unless dot; the symlinked directories themselves are matched
                if cur:
                    may.add(cur)                      # `a/**` also yields `a/`
                    if not nodir and certain:
                        must.add(cur)
                for d in dirs:
                    nolist = isinstance(d, tuple)
                    dn = d[0] if nolist else d
                    if dn != cur:
                        emit(dn, certain)
                    if nolist:
                        continue
                    names = listdir(full(dn)) or []
                    for nm in names:
                        if nm.startswith('.') and not dot:
                            continue
                        p = join(dn, nm)
                        if trail and not isdir(p):
                            continue
                        if not isdir(p):
                            emit(p, certain)
            else:
                for d in dirs:
                    if isinstance(d, tuple):
                        # a symlinked directory that the globstar does not traverse still is a zero-level start for what follows?  No:
                        # it is matched by `**` as a name, so `**/x` may look at link/x only through a written segment: not here.
                        dn = d[0]
                        # the next segment may match the link itself (it is an entry of its parent), handled from the parent directory
                        continue
                    walk(u + 1, d, certain)
            return
        nodes = val
        if is_literal(nodes) and not ci:
            text = lit_text(nodes)
            cand = [text] if lexists(join(cur, text)) else []
            if text in ('.', '..'):
                cand = [text] if isdir(cur) or not cur else []
        else:
            names = listdir(full(cur))
            if names is None:
                return
            cand = [nm for nm in names if seg_matches(nodes, nm, dot, ci)]
            if scandotdir:
                cand += [sp for sp in ('.', '..') if seg_matches(nodes, sp, dot, ci)]
            elif is_literal(nodes):
                cand += [sp for sp in ('.', '..') if lit_text(nodes) == sp]
        # a written dot inside a group (`@(..)`) reaching . / .. without SCANDOTDIR: the statement's "written literally" is arguable -> MAY only
        maybe = []
        if not is_literal(nodes) and not scandotdir:
            maybe = [sp for sp in ('.', '..') if sp not in cand and seg_matches(nodes, sp, True, ci)]
        for nm in cand + maybe:
            sure = certain and nm not in maybe
            p = join(cur, nm)
            if last:
                if trail:
                    if isdir(p):
                        emit(p, sure)
                else:
                    emit(p, sure)
            elif isdir(p):
                walk(u + 1, p, sure)

    walk(0, '')
    return must, may

"""Region predicates of known findings (DESIGN.md section 7): narrow, structural, over pattern text / ASTs.
Used only to *classify* or *subtract* already-listed findings; a failing case outside every live region is a VIOLATION."""
from __future__ import annotations


def _groups_scan(text):
    """Yield (kind, depth, event) for extended-group openings/closings in a pattern text (escapes skipped;
    bracket expressions are not interpreted - only used for classification of listed findings)."""
    i = 0
    n = len(text)
    stack = []
    while i < n:
        c = text[i]
        if c == '\\':
            i += 2
            continue
        if c in '?*+@!' and i + 1 < n and text[i + 1] == '(':
            stack.append(c)
            yield ('open', c, len(stack), i)
            i += 2
            continue
        if c == ')' and stack:
            k = stack.pop()
            yield ('close', k, len(stack) + 1, i)
        elif c == '/' and not stack:
            yield ('sep', '/', 0, i)
        i += 1


def negation_inside_group_after_negation(text):
    """A `!(` that sits inside a non-negated group which follows a closed `!(...)` at the same nesting level of
    the same segment (root cause: clean_up_inverse closes the first placeholder with the tail that still contains an
    unclosed second placeholder).  e.g. !(a)?(!(b)),  !(a)+(!(b)c)"""
    if isinstance(text, bytes):
        text = text.decode('latin-1')
    closed_neg_at = set()      # depth levels (of the *parent*) where a !() has been closed in this segment
    inside = []                # stack of booleans: is this open group a non-negated group opened after a closed !() ?
    for ev, k, d, _pos in _groups_scan(text):
        if ev == 'sep':
            closed_neg_at.clear()
        elif ev == 'open':
            parent = d - 1
            if k == '!' and any(inside):
                return True
            inside.append(k != '!' and parent in closed_neg_at)
        elif ev == 'close':
            if inside:
                inside.pop()
            if k == '!':
                closed_neg_at.add(d - 1)
    return False


def star_before_star_group(nodes):
    """AST predicate: a `*` standing at the START of the name / segment (also: at the start of an alternative of a group that stands
    there) and immediately followed by a `*( ... )` group: wcmatch's duplicate-star consumption at the start reads `**(x)` as `*` +
    literal `(x)`.  Anywhere else (`a**(x)`) the group is parsed correctly and is not part of the listed finding."""
    k = 0
    while k < len(nodes) and nodes[k][0] == 'star':          # a run of star nodes at the start is one run of `*` characters
        k += 1
    if 0 < k < len(nodes) and nodes[k][0] == 'grp' and nodes[k][1] == '*':
        return True
    if nodes and nodes[0][0] == 'grp':
        return any(star_before_star_group(alt) for alt in nodes[0][2])
    if nodes and nodes[0][0] == 'neg':
        return any(star_before_star_group(alt) for alt in nodes[0][1])
    return False


# ---------------------------------------------------------------------------------------------------------
# regions used by the spec-vs-impl checks (C01, C02, C03): (key, pattern predicate, name region formula builder)
SPEC_REGIONS = []


def _guard_repeated(nodes, under_rep=False):
    """The first node of the (sub)pattern is a wildcard that receives the start-of-name guard while standing inside a
    repeated group: the guard is then re-applied at every iteration (e.g. +(?) -> (?:(?![.]).)+ )."""
    if not nodes:
        return False
    n = nodes[0]
    if n[0] in ('q', 'cls', 'star'):
        return under_rep
    if n[0] == 'neg':
        # (the alternatives of a negation standing at the start are themselves parsed at the start: a repeated group inside them counts)
        return under_rep or any(_guard_repeated(a, under_rep) for a in n[1])
    if n[0] == 'grp':
        rep = under_rep or n[1] in '*+'
        return any(_guard_repeated(a, rep) for a in n[2])
    return False


def _segments(mode, ast):
    return [ast] if mode == 'fn' else [it[1] for it in ast if it[0] == 'seg']


def pat_guard_repeated(mode, ast, fi):
    if mode == 'fn' and fi['dot']:
        return False
    return any(_guard_repeated(seg) for seg in _segments(mode, ast))


def name_dot_inside_segment(sym, mode, ast, fi):
    """Some '.' that is not at a segment start."""
    import z3
    alts = []
    for i in range(1, sym.N):
        f = z3.And(sym.len_gt(i), sym.c[i] == sym.cv(46))
        if fi['path']:
            f = z3.And(f, sym.c[i - 1] != sym.cv(47))
        alts.append(f)
    return z3.Or(*alts) if alts else z3.BoolVal(False)


def pat_star_star_group(mode, ast, fi):
    return any(star_before_star_group(seg) for seg in _segments(mode, ast))


SPEC_REGIONS += [
    ('dot-guard-in-repeated-group', pat_guard_repeated, name_dot_inside_segment),
    ('star-before-star-group', pat_star_star_group, lambda sym, mode, ast, fi: None),
]


def _nullable(nodes):
    for n in nodes:
        if n[0] in ('star', 'neg'):
            continue
        if n[0] == 'grp':
            if n[1] in '?*':
                continue
            if any(_nullable(a) for a in n[2]):
                continue
            return False
        return False
    return True


def pat_nullable_segment(mode, ast, fi):
    # only segments that START with a nullable ?( *( @(|..) group: a segment starting with !( carries its own non-empty guard
    return mode == 'gl' and any(it[0] == 'seg' and it[1] and it[1][0][0] == 'grp' and _nullable(it[1]) for it in ast)


def nullable_segment_variants(ast):
    """Footprint of empty-segment-by-nullable-group, second half: a segment pattern that matched the empty string leaves two separators
    next to each other, and a run of separators counts as one - so the pattern also behaves as if that segment (and one adjacent
    separator) were not written.  Returns the path ASTs with one, or all, such segments removed."""
    idx = [i for i, it in enumerate(ast) if it[0] == 'seg' and it[1] and it[1][0][0] == 'grp' and _nullable(it[1])]
    out = []

    def drop(a, i):
        a = list(a)
        if i + 1 < len(a) and a[i + 1][0] == 'sep':
            del a[i:i + 2]
        elif i > 0 and a[i - 1][0] == 'sep':
            del a[i - 1:i + 1]
        else:
            del a[i]
        return a
    for i in idx:
        v = drop(ast, i)
        if v:
            out.append(tuple(v))
    if len(idx) > 1:
        a = list(ast)
        for i in reversed(idx):
            a = drop(a, i)
        if a:
            out.append(tuple(a))
    return out


def name_matched_through_empty_segment(sym, mode, ast, fi):
    """Exactly the footprint of the listed defect: paths the spec accepts only if a segment pattern is allowed to match
    an empty path segment (adjacent / leading / trailing separators)."""
    import z3
    from engine import speccheck, spec as S
    exact = speccheck.is_exact(mode, ast)

    def build(empty):
        sp = S.Spec(sym, path=True, dot=fi['dot'], ci=fi['ci'], nodotdir=fi['nodotdir'], relaxed=not exact, empty_segments=empty)
        return sp.path_full(ast, globstar=fi['globstar'], globstarlong=fi['globstarlong'], matchbase=fi['matchbase'],
                            nodir=fi['nodir'], allow_abs_globstar=True)
    return z3.And(build(True), z3.Not(build(False)))


def pat_is_path(mode, ast, fi):
    return mode == 'gl'


def _has_globstar_unit(ast, fi):
    if fi.get('matchbase'):
        return True           # implicit globstar prefix
    for it in ast:
        n = 0
        if it[0] == 'gs':
            n = it[1]
        elif it[0] == 'seg' and it[1] and all(x[0] == 'star' for x in it[1]):
            n = sum(x[1] for x in it[1])
        if n >= 2 and (fi.get('globstar') or fi.get('globstarlong')):
            return True
    return False


def name_ends_with_newline(sym, mode, ast, fi):
    """Footprint of the `$` that also matches before a trailing newline: with a globstar in the pattern (_GLOBSTAR_DIV) any path ending in
    a newline; otherwise (_NO_DIR guard only) just the paths whose last segment is `.` or `..` followed by that newline."""
    import z3
    nl = [z3.And(sym.len_eq(L), sym.c[L - 1] == sym.cv(10)) for L in range(1, sym.N + 1)]
    if _has_globstar_unit(ast, fi) or fi.get('nodir'):
        return z3.Or(*nl)
    alts = []
    for L in range(2, sym.N + 1):
        for k in (1, 2):                       # k dots before the final newline, at a segment start
            if L - 1 - k < 0:
                continue
            dots = [sym.c[L - 1 - j] == sym.cv(46) for j in range(1, k + 1)]
            start = sym.c[L - 2 - k] == sym.cv(47) if L - 2 - k >= 0 else z3.BoolVal(True)
            alts.append(z3.And(sym.len_eq(L), sym.c[L - 1] == sym.cv(10), start, *dots))
    return z3.Or(*alts)


SPEC_REGIONS += [
    ('trailing-newline-dollar', pat_is_path, name_ends_with_newline),
]


def pat_nullable_start(mode, ast, fi):
    """Some segment starts with a node that can match the empty string (a group, !(..) or *) and has a further node."""
    for seg in _segments(mode, ast):
        if len(seg) >= 2 and (seg[0][0] in ('star', 'neg') or (seg[0][0] == 'grp' and _nullable(seg[:1]))):
            return True
        if seg and seg[0][0] in ('grp', 'neg') and _inner_nullable_start(seg[0]):
            return True
    return False


def _inner_nullable_start(g):
    alts = g[2] if g[0] == 'grp' else g[1]
    for a in alts:
        if len(a) >= 2 and (a[0][0] in ('star', 'neg') or (a[0][0] == 'grp' and _nullable(a[:1]))):
            return True
        if a and a[0][0] in ('grp', 'neg') and _inner_nullable_start(a[0]):
            return True
    return False


def name_static_guard_footprint(sym, mode, ast, fi):
    """Footprint of the listed defect: names accepted when the start-of-segment guards are applied only to the
    statically first node of a segment (as the parser does), minus the names the dot rule really allows."""
    import z3
    from engine import speccheck, spec as S
    exact = speccheck.is_exact(mode, ast)

    def build(static):
        sp = S.Spec(sym, path=fi['path'], dot=fi['dot'], ci=fi['ci'], nodotdir=fi['nodotdir'], relaxed=not exact,
                    static_guard=static)
        if mode == 'fn':
            return sp.name_full(ast)
        return sp.path_full(ast, globstar=fi['globstar'], globstarlong=fi['globstarlong'], matchbase=fi['matchbase'],
                            nodir=fi['nodir'], allow_abs_globstar=True)
    return z3.And(build(True), z3.Not(build(False)))





def _dot_not_plain(nodes, top=True):
    """A written dot inside a group, or at top level after another node (so NODOTDIR's literal-dot analysis is skipped)."""
    for k, n in enumerate(nodes):
        if n[0] == 'lit' and n[1] == '.' and (not top or k > 0) and not all(x[0] == 'lit' and x[1] == '.' for x in nodes[:k]):
            return True
        if n[0] == 'lit' and n[1] == '.' and not top:
            return True
        if n[0] == 'grp' and any(_dot_not_plain(a, False) for a in n[2]):
            return True
        if n[0] == 'neg' and any(_dot_not_plain(a, False) for a in n[1]):
            return True
    return False


def pat_nodotdir_dot_in_group(mode, ast, fi):
    return mode == 'gl' and fi['nodotdir'] and any(_dot_not_plain(seg) for seg in _segments(mode, ast))


def name_only_without_nodotdir(sym, mode, ast, fi):
    import z3
    from engine import speccheck, spec as S
    exact = speccheck.is_exact(mode, ast)

    def build(ndd):
        sp = S.Spec(sym, path=True, dot=fi['dot'], ci=fi['ci'], nodotdir=ndd, relaxed=not exact)
        return sp.path_full(ast, globstar=fi['globstar'], globstarlong=fi['globstarlong'], matchbase=fi['matchbase'],
                            nodir=fi['nodir'], allow_abs_globstar=True)
    return z3.And(build(False), z3.Not(build(True)))


def pat_matchbase_single_globstar(mode, ast, fi):
    if mode != 'gl' or not fi['matchbase']:
        return False
    units = [it for it in ast if it[0] != 'sep']
    if len(units) != 1 or any(it[0] == 'sep' for it in ast):
        return False
    u = units[0]
    n = u[1] if u[0] == 'gs' else (sum(x[1] for x in u[1]) if u[1] and all(x[0] == 'star' for x in u[1]) else 0)
    return (n == 2) or (n == 3 and fi['globstarlong'])


def name_any_hidden(sym, mode, ast, fi):
    import z3
    from engine import spec as S
    alts = [S.some_hidden_segment(sym, True), z3.Not(z3.And(*S.no_dotdir_segments(sym)))]
    return z3.Or(*alts)


SPEC_REGIONS += [
    ('matchbase-globstar-hidden', pat_matchbase_single_globstar, name_any_hidden),
]


def _alt_starts_with_dot(g):
    alts = g[2] if g[0] == 'grp' else g[1]
    for a in alts:
        if a and a[0][0] == 'lit' and a[0][1] == '.':
            return True
        if a and a[0][0] in ('grp', 'neg') and _alt_starts_with_dot(a[0]):
            return True
    return False


def _contains_neg(g):
    if g[0] == 'neg':
        return True
    return any(n[0] in ('grp', 'neg') and _contains_neg(n) for a in g[2] for n in a)


def pat_dotglob_neg_after_dot_alt(mode, ast, fi):
    """DOTGLOB: a segment that starts with a group holding an alternative that begins with a written dot and a !(...):
    match_dot_dir makes the negation's implicit star unguarded, so it matches the . and .. segments."""
    if mode != 'gl' or not fi['dot'] or fi['nodotdir']:
        return False
    for seg in _segments(mode, ast):
        if seg and seg[0][0] in ('grp', 'neg') and _alt_starts_with_dot(seg[0]) and _contains_neg(seg[0]):
            return True
    return False


def name_has_dotdir_segment(sym, mode, ast, fi):
    import z3
    from engine import spec as S
    return z3.Not(z3.And(*S.no_dotdir_segments(sym)))


SPEC_REGIONS += [
    ('dotglob-negation-after-dot-alternative', pat_dotglob_neg_after_dot_alt, name_has_dotdir_segment),
]


# Findings whose footprint is 'the implementation accepts what a sloppier reading of the pattern accepts': instead of a
# name region they widen MAY by exactly that reading (all live ones together, so combinations are covered):
#   (key, pattern predicate, Spec keyword overrides)
RELAX_REGIONS = [
    ('empty-segment-by-nullable-group', pat_nullable_segment, {'empty_segments': True}),
    ('unguarded-wildcard-after-nullable-start', pat_nullable_start, {'static_guard': True}),
    ('nodotdir-dot-in-group', pat_nodotdir_dot_in_group, {'nodotdir': False}),
]

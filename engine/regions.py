"""Region predicates of known findings (DESIGN.md section 7): narrow, structural, over pattern text / ASTs.
Used only to *classify* or *subtract* already-listed findings; a failing case outside every live region is a VIOLATION."""
from __future__ import annotations


def _groups_scan(text):
    """Yield (kind, depth, event) for extended-group openings/closings in a pattern text (escapes skipped;
    bracket expressions are not interpreted - only used for classification of listed findings)."""
    i = 0
    n = len(text)
    stack = []
    while i < n:
        c = text[i]
        if c == '\\':
            i += 2
            continue
        if c in '?*+@!' and i + 1 < n and text[i + 1] == '(':
            stack.append(c)
            yield ('open', c, len(stack), i)
            i += 2
            continue
        if c == ')' and stack:
            k = stack.pop()
            yield ('close', k, len(stack) + 1, i)
        elif c == '/' and not stack:
            yield ('sep', '/', 0, i)
        i += 1


def negation_inside_group_after_negation(text):
    """A `!(` that sits inside a non-negated group which follows a closed `!(...)` at the same nesting level of
    the same segment (root cause: clean_up_inverse closes the first placeholder with the tail that still contains an
    unclosed second placeholder).  e.g. !(a)?(!(b)),  !(a)+(!(b)c)"""
    if isinstance(text, bytes):
        text = text.decode('latin-1')
    closed_neg_at = set()      # depth levels (of the *parent*) where a !() has been closed in this segment
    inside = []                # stack of booleans: is this open group a non-negated group opened after a closed !() ?
    for ev, k, d, _pos in _groups_scan(text):
        if ev == 'sep':
            closed_neg_at.clear()
        elif ev == 'open':
            parent = d - 1
            if k == '!' and any(inside):
                return True
            inside.append(k != '!' and parent in closed_neg_at)
        elif ev == 'close':
            if inside:
                inside.pop()
            if k == '!':
                closed_neg_at.add(d - 1)
    return False


def star_before_star_group(nodes):
    """AST predicate: a `*` immediately followed by a `*( ... )` group: wcmatch reads `**(x)` as `*` + literal `(x)`."""
    for a, b in zip(nodes, nodes[1:]):
        if a[0] == 'star' and b[0] == 'grp' and b[1] == '*':
            return True
    for n in nodes:
        if n[0] == 'grp' and any(star_before_star_group(alt) for alt in n[2]):
            return True
        if n[0] == 'neg' and any(star_before_star_group(alt) for alt in n[1]):
            return True
    return False


# ---------------------------------------------------------------------------------------------------------
# regions used by the spec-vs-impl checks (C01, C02, C03): (key, pattern predicate, name region formula builder)
SPEC_REGIONS = []


def _guard_repeated(nodes, under_rep=False):
    """The first node of the (sub)pattern is a wildcard that receives the start-of-name guard while standing inside a
    repeated group: the guard is then re-applied at every iteration (e.g. +(?) -> (?:(?![.]).)+ )."""
    if not nodes:
        return False
    n = nodes[0]
    if n[0] in ('q', 'cls', 'star'):
        return under_rep
    if n[0] == 'neg':
        return under_rep
    if n[0] == 'grp':
        rep = under_rep or n[1] in '*+'
        return any(_guard_repeated(a, rep) for a in n[2])
    return False


def _segments(mode, ast):
    return [ast] if mode == 'fn' else [it[1] for it in ast if it[0] == 'seg']


def pat_guard_repeated(mode, ast, fi):
    if mode == 'fn' and fi['dot']:
        return False
    return any(_guard_repeated(seg) for seg in _segments(mode, ast))


def name_dot_inside_segment(sym, mode, ast, fi):
    """Some '.' that is not at a segment start."""
    import z3
    alts = []
    for i in range(1, sym.N):
        f = z3.And(sym.len_gt(i), sym.c[i] == sym.cv(46))
        if fi['path']:
            f = z3.And(f, sym.c[i - 1] != sym.cv(47))
        alts.append(f)
    return z3.Or(*alts) if alts else z3.BoolVal(False)


def pat_star_star_group(mode, ast, fi):
    return any(star_before_star_group(seg) for seg in _segments(mode, ast))


SPEC_REGIONS += [
    ('dot-guard-in-repeated-group', pat_guard_repeated, name_dot_inside_segment),
    ('star-before-star-group', pat_star_star_group, lambda sym, mode, ast, fi: None),
]

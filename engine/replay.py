"""Replay interpreter: executes a recorded counterexample against the real, unpatched public API.

exit 0: the asserted property holds on this case; exit 1: violated (reproduced); exit 3: replay error.

Format (JSON, bytes as {"__bytes__": latin-1 text}):
  tree:   optional {"entries": [[relpath, "dir"|"file"] | [relpath, "link", target]]} materialised under a scratch dir
  chdir:  optional bool - chdir into the tree root for the duration of the steps
  steps:  [{"as": name, "call": "pkg.mod.func" | "expr:<python>", "args": [...], "kwargs": {...}}]
          the string "$ROOT" inside args/kwargs is replaced by the tree root (bytes variant: {"__bytes__":"$ROOT"})
          a call that raises yields the string "EXC:<TypeName>"
  assert: python expression over the step names; True = property holds
"""
from __future__ import annotations
import importlib
import json
import os
import shutil
import sys
import tempfile

from engine.common import dec, REPO


def materialise(tree, root):
    for ent in tree.get('entries', []):
        rel, kind = ent[0], ent[1]
        p = os.path.join(root, rel)
        os.makedirs(os.path.dirname(p), exist_ok=True)
        if kind == 'dir':
            os.makedirs(p, exist_ok=True)
        elif kind == 'file':
            with open(p, 'w') as f:
                f.write('x')
        elif kind == 'link':
            os.symlink(ent[2], p)
        else:
            raise ValueError(kind)


class _OrderedScan:
    def __init__(self, entries):
        self._it = iter(entries)

    def __iter__(self):
        return self

    def __next__(self):
        return next(self._it)

    def __enter__(self):
        return self

    def __exit__(self, *a):
        return False

    def close(self):
        pass


def install_scandir_order(order):
    """Directory listing order is unspecified by the OS: present real listings in the given name order (the order the symbolic run
    used), so that an order-dependent counterexample can reproduce on the real tree."""
    # wcmatch computes SUPPORT_DIR_FD from `os.scandir in os.supports_fd` at import time: import it before the wrapper goes in,
    # and register the wrapper as fd-capable as well, so that dir_fd-based runs are not silently turned into cwd-based ones
    import wcmatch.glob, wcmatch.wcmatch, wcmatch.pathlib  # noqa: F401,E401
    rank = {n: k for k, n in enumerate(order)}
    real = os.scandir

    def scandir(path='.'):
        with real(path) as it:
            ents = list(it)
        ents.sort(key=lambda e: rank.get(os.fsdecode(e.name), len(rank)))
        return _OrderedScan(ents)
    if real in os.supports_fd:
        os.supports_fd.add(scandir)
    os.scandir = scandir
    return real


def subst(o, root):
    if isinstance(o, str):
        return o.replace('$ROOT', root)
    if isinstance(o, bytes):
        return o.replace(b'$ROOT', os.fsencode(root))
    if isinstance(o, list):
        return [subst(x, root) for x in o]
    if isinstance(o, dict):
        return {k: subst(v, root) for k, v in o.items()}
    return o


def resolve(name):
    parts = name.split('.')
    for k in range(len(parts), 0, -1):
        try:
            obj = importlib.import_module('.'.join(parts[:k]))
        except ImportError:
            continue
        for a in parts[k:]:
            obj = getattr(obj, a)
        return obj
    raise ImportError(name)


def strip_sep(x):
    if isinstance(x, bytes):
        return x.rstrip(b'/') or x[:1]
    return x.rstrip('/') or x[:1]


def run(rep):
    import wcmatch
    if not os.path.realpath(wcmatch.__file__).startswith(REPO + '/'):
        print('replay: wcmatch not imported from /repo')
        return 3
    root = None
    real_scandir = None
    old = os.getcwd()
    env = {'os': os, 'strip': strip_sep, 'sorted': sorted, 'set': set, 'len': len, 'list': list, 'any': any,
           'all': all, 'bool': bool, 'isinstance': isinstance, 'str': str, 'bytes': bytes, 'tuple': tuple}
    try:
        if rep.get('tree') is not None:
            parent = tempfile.mkdtemp(prefix='wcverif_replay_')     # private parent directory (see fsdriver.on_real_tree)
            root = os.path.join(parent, 'wcvroot')
            os.mkdir(root)
            materialise(rep['tree'], root)
        if rep.get('chdir') and root:
            os.chdir(root)
        if rep.get('scandir_order'):
            real_scandir = install_scandir_order(rep['scandir_order'])
        env['ROOT'] = root
        for st in rep['steps']:
            args = subst(st.get('args', []), root or '')
            kwargs = subst(st.get('kwargs', {}), root or '')
            try:
                if st['call'].startswith('expr:'):
                    val = eval(st['call'][5:], dict(env, importlib=importlib, resolve=resolve, args=args, kwargs=kwargs))
                else:
                    val = resolve(st['call'])(*args, **kwargs)
                    if st.get('list'):
                        val = list(val)
            except Exception as e:  # noqa: BLE001
                val = 'EXC:' + type(e).__name__
                env[st['as'] + '_exc'] = repr(e)
            env[st['as']] = val
        ok = bool(eval(rep['assert'], env))
        shown = {st['as']: env[st['as']] for st in rep['steps']}
        print(('HOLDS ' if ok else 'VIOLATED ') + rep.get('describe', '') + ' :: assert ' + rep['assert'] + ' :: ' +
              repr(shown)[:1500])
        return 0 if ok else 1
    finally:
        if real_scandir is not None:
            os.scandir = real_scandir
        os.chdir(old)
        if root:
            shutil.rmtree(os.path.dirname(root), ignore_errors=True)


def main():
    with open(sys.argv[1]) as f:
        rep = dec(json.load(f))
    try:
        code = run(rep)
    except Exception as e:  # noqa: BLE001
        import traceback
        traceback.print_exc()
        print('replay error:', e)
        code = 3
    sys.exit(code)


if __name__ == '__main__':
    main()

"""Small helper functions callable from replay files (run against the real, unpatched code)."""
from __future__ import annotations
import re


def _mod(mode):
    from wcmatch import fnmatch, glob
    return fnmatch if mode == 'fn' else glob


def translate_accepts(mode, pats, name, kwargs):
    """Does the translate() output accept `name` (some include regex, no exclude regex, non-empty)?"""
    inc, exc = _mod(mode).translate(pats, **kwargs)
    if not name:
        return False
    return any(re.compile(r).fullmatch(name) for r in inc) and not any(re.compile(r).fullmatch(name) for r in exc)


def translate_and_compile_ok(mode, pats, kwargs):
    """translate() output compiles and compile()/match do not raise re.error etc. Documented errors count as ok
    only when both translate and compile raise the same documented exception."""
    m = _mod(mode)
    documented = (m._wcparse.PatternLimitException, SyntaxError, TypeError, ValueError, LookupError)
    try:
        inc, exc = m.translate(pats, **kwargs)
    except documented as e:
        try:
            m.compile(pats, **kwargs)
        except documented as e2:
            return type(e) is type(e2)
        return False
    for r in list(inc) + list(exc):
        re.compile(r)
    m.compile(pats, **kwargs)
    return True


def matcher_accepts(mode, pats, name, kwargs):
    """The answer of the three matching entry points (direct call, compiled matcher, filter); a string starting with DISAGREE when
    they do not give the same answer (itself a violation of every property that speaks about `matching`)."""
    m = _mod(mode)
    fn = 'fnmatch' if mode == 'fn' else 'globmatch'
    direct = getattr(m, fn)(name, pats, **kwargs)
    if not name:
        return direct
    compiled = m.compile(pats, **kwargs)
    cm = compiled.match(name)
    ft = bool(compiled.filter([name]))
    flt = bool((m.filter if mode == 'fn' else m.globfilter)([name], pats, **kwargs))
    if not (direct == cm == ft == flt):
        return f'DISAGREE: {fn}={direct} compile().match={cm} compile().filter={ft} filter={flt}'
    return direct


def group_count(mode, pats, kwargs):
    inc, _ = _mod(mode).translate(pats, **kwargs)
    return [re.compile(r).groups for r in inc]


def decomposed_accepts(mode, incs, excs, name, single_flags, neg_all):
    """OR(single inclusion matches) AND NOT OR(single exclusion matches with DOTMATCH forced)."""
    m = _mod(mode)
    fn = getattr(m, 'fnmatch' if mode == 'fn' else 'globmatch')
    dflag = m.DOTMATCH if mode == 'fn' else m.DOTGLOB
    nodir = getattr(m, 'NODIR', 0)
    hit = any(p != '' and fn(name, p, flags=single_flags) for p in incs)
    if neg_all:
        hit = hit or fn(name, '**', flags=single_flags | (m.GLOBSTAR if mode == 'gl' else 0))
    if not hit:
        return False
    return not any(e != '' and fn(name, e, flags=(single_flags | dflag) & ~nodir) for e in excs)


def list_lengths(mode, pats, kwargs):
    m = _mod(mode)
    t = m.translate(pats, **kwargs)
    c = m.compile(pats, **kwargs)._matcher
    return [[len(t[0]), len(t[1])], [len(c._include), len(c._exclude or ())]]


def _enc(p):
    if isinstance(p, list):
        return [x.encode('latin-1') for x in p]
    return p.encode('latin-1') if p is not None else None


def bytes_str_agree(mode, pats, kwargs, name=None):
    """The bytes call and the str call agree: translate (encoded), escape, is_magic, and the match verdict on `name`
    (given as bytes; the str name is its Latin-1 decoding)."""
    m = _mod(mode)
    kb = dict(kwargs)
    if kb.get('exclude') is not None:
        kb['exclude'] = _enc(kb['exclude'])

    def call(f, *a, **k):
        try:
            return ('ok', f(*a, **k))
        except Exception as e:  # noqa: BLE001
            return ('exc', type(e).__name__)
    ts, tb = call(m.translate, pats, **kwargs), call(m.translate, _enc(pats), **kb)
    if ts[0] != tb[0] or (ts[0] == 'exc' and ts[1] != tb[1]):
        return False
    for single in (pats if isinstance(pats, list) else [pats]):
        if m.escape(single).encode('latin-1') != m.escape(single.encode('latin-1')):
            return False
        if m.is_magic(single, flags=kwargs.get('flags', 0)) != m.is_magic(single.encode('latin-1'), flags=kwargs.get('flags', 0)):
            return False
    if ts[0] == 'ok' and all(ord(c) < 128 for c in ''.join(pats if isinstance(pats, list) else [pats])):
        enc = ([x.encode('latin-1') for x in ts[1][0]], [x.encode('latin-1') for x in ts[1][1]])
        txt = repr(ts[1]) + repr(tb[1])
        if (enc[0] != list(tb[1][0]) or enc[1] != list(tb[1][1])) and '\\U0010ffff' not in txt and '\\xff' not in txt and 'ÿ' not in txt:
            return False
    if name is not None:
        fn = getattr(m, 'fnmatch' if mode == 'fn' else 'globmatch')
        a = call(fn, name.decode('latin-1'), pats, **kwargs)
        b = call(fn, name, _enc(pats), **kb)
        if a != b:
            return False
    return True


def mixed_type_failures():
    from props.c18 import mixed_type_cases
    return mixed_type_cases()


def escape_check(kind, mode, s, flags, name):
    """Does the (escaped / non-magic) pattern built from s accept `name`?"""
    m = _mod(mode)
    if kind == 'nonmagic':
        pat = s
    elif mode == 'fn':
        pat = m.escape(s)
    else:
        f = flags
        if f & m.FORCEWIN and f & m.FORCEUNIX:
            f ^= m.FORCEWIN | m.FORCEUNIX
        win = bool(f & m.FORCEWIN)
        # same rule as props/c09.work: in Unix mode every other string is escaped with the default `unix=None` (= the running platform)
        pat = m.escape(s) if (not win and len(s) % 2 == 0 and kind == 'escape') else m.escape(s, unix=not win)
    fn = getattr(m, 'fnmatch' if mode == 'fn' else 'globmatch')
    return fn(name, pat, flags=flags & ~getattr(m, 'REALPATH', 0)) if not (flags & getattr(m, 'REALPATH', 0)) else _regex_accepts(m, pat, flags, name)


def _regex_accepts(m, pat, flags, name):
    c = m.compile(pat, flags=flags)._matcher
    return bool(name) and any(p.fullmatch(name) for p in c._include) and not any(p.fullmatch(name) for p in (c._exclude or ()))


def rawchars_agree(kind, mode, p, flags, is_bytes, name):
    """Replay of a C20 obligation on one concrete name (or of the exception-class comparison)."""
    from props.c20 import decode, unescape_plain, Predicted
    m = _mod(mode)
    fn = getattr(m, 'fnmatch' if mode == 'fn' else 'globmatch')
    cv = (lambda t: t.encode('latin-1')) if is_bytes else (lambda t: t)
    if kind == 'raw':
        try:
            ref, pred = decode(p, is_bytes), None
        except Predicted as ex:
            ref, pred = None, ex.name
        try:
            m.compile(cv(p), flags=flags | m.RAWCHARS)
            got = None
        except Exception as ex:  # noqa: BLE001
            got = type(ex).__name__
        if pred or got:
            return (pred == got) or (pred == 'KeyError' and got in ('KeyError', 'LookupError')) or (pred == 'ValueError' and got in ('ValueError', 'OverflowError'))
        if name is None:
            return True
        return fn(name, cv(p), flags=flags | m.RAWCHARS) == fn(name, cv(ref), flags=flags)
    ref = unescape_plain(p)
    if name is None:
        return True
    return fn(name, cv(p), flags=flags) == fn(name, cv(ref), flags=flags)


# ---------------------------------------------------------------------------------------------------------
# C11 helpers

def default_limit(name):
    import inspect
    from engine.replay import resolve
    return inspect.signature(resolve(name)).parameters['limit'].default


def _brace(prefix, n, suffix=''):
    if n <= 0:
        return None
    if n == 1:
        return f'{prefix}1{suffix}'
    return f'{prefix}{{1..{n}}}{suffix}'


def _call_entry(entry, incl, excl, L, flags_extra=0):
    """Call one public entry point with inclusion patterns `incl` (list), exclusion patterns `excl` (list) and limit L."""
    from wcmatch import fnmatch as F, glob as G, pathlib as P, wcmatch as W
    ex = excl if excl else None
    if entry == 'fnmatch':
        return F.fnmatch('x', incl, flags=F.BRACE | F.SPLIT | flags_extra, limit=L, exclude=ex)
    if entry == 'filter':
        return F.filter(['x'], incl, flags=F.BRACE | F.SPLIT, limit=L, exclude=ex)
    if entry == 'fn_translate':
        return F.translate(incl, flags=F.BRACE | F.SPLIT, limit=L, exclude=ex)
    if entry == 'fn_compile':
        return F.compile(incl, flags=F.BRACE | F.SPLIT, limit=L, exclude=ex)
    if entry == 'globmatch':
        return G.globmatch('x', incl, flags=G.BRACE | G.SPLIT, limit=L, exclude=ex)
    if entry == 'globfilter':
        return G.globfilter(['x'], incl, flags=G.BRACE | G.SPLIT, limit=L, exclude=ex)
    if entry == 'gl_translate':
        return G.translate(incl, flags=G.BRACE | G.SPLIT, limit=L, exclude=ex)
    if entry == 'gl_compile':
        return G.compile(incl, flags=G.BRACE | G.SPLIT, limit=L, exclude=ex)
    if entry == 'glob':
        return G.glob(incl, flags=G.BRACE | G.SPLIT, limit=L, exclude=ex, root_dir='/nonexistent-wcverif')
    if entry == 'iglob':
        return list(G.iglob(incl, flags=G.BRACE | G.SPLIT, limit=L, exclude=ex, root_dir='/nonexistent-wcverif'))
    if entry == 'pathlib_match':
        return P.PurePath('x').match(incl, flags=P.BRACE | P.SPLIT, limit=L, exclude=ex)
    if entry in ('pathlib_glob', 'pathlib_rglob'):
        # an existing but EMPTY directory: the law is about expansion work, not about walking whatever the temp directory holds
        import shutil
        import tempfile
        d = tempfile.mkdtemp(prefix='wcverif_c11_')
        try:
            pth = P.Path(d)
            return list((pth.glob if entry == 'pathlib_glob' else pth.rglob)(incl, flags=P.BRACE | P.SPLIT, limit=L, exclude=ex))
        finally:
            shutil.rmtree(d, ignore_errors=True)
    if entry == 'wcmatch':
        # brace expansion applies to the whole |-joined string (and would multiply the pieces): spell ranges out instead
        def spell(p):
            import bracex
            return list(bracex.expand(p, limit=0)) if '{' in p else [p]
        if any('100000000' in p for p in incl):
            pat = '|'.join(incl)
        else:
            pat = '|'.join([x for p in incl for x in spell(p)] + ['!' + x for e in (excl or []) for x in spell(e)])
        return W.WcMatch('/nonexistent-wcverif', pat, flags=W.BRACE, limit=L)
    raise ValueError(entry)


def limit_boundary(entry, L, shape, _guarded=False):
    """Failures of the limit law around the boundary for one entry point (real bracex)."""
    import time
    from wcmatch import _wcparse
    bad = []

    def attempt(incl, excl, expect_raise, label):
        t = time.time()
        try:
            _call_entry(entry, incl, excl, L)
            raised = False
        except _wcparse.PatternLimitException:
            raised = True
        except Exception as e:  # noqa: BLE001
            bad.append(f'{label}: unexpected {type(e).__name__}: {e}')
            return
        dt = time.time() - t
        if raised != expect_raise:
            bad.append(f'{label}: raised={raised} expected={expect_raise}')
        if dt > 120:
            # (a generous bound: at the boundary about L patterns are legitimately compiled; the fail-fast clause proper is the `huge` shape,
            # run in a child process with its own time and memory limits)
            bad.append(f'{label}: took {dt:.1f}s')

    if shape == 'incl_only':
        for k in (L - 1, L, L + 1):
            if k >= 1:
                attempt([_brace('', k)], [], k > L, f'{k} inclusion expansions')
    elif shape == 'with_exclude':
        for a, b in ((L - 1, 1), (L, 1), (max(L - 2, 1), 2), (1, L), (1, L - 1)):
            if a >= 1 and b >= 1:
                attempt([_brace('', a)], [_brace('', b, 'x')], a + b > L, f'{a} inclusions + {b} exclusions')
    elif shape == 'split':
        for k in (L, L + 1):
            if k <= 40:
                attempt(['|'.join(f'p{i}' for i in range(k))], [], k > L, f'{k} split pieces')
            if 2 <= k <= 40:
                attempt(['p0', '|'.join(f'q{i}' for i in range(k - 1))], [], k > L, f'1 + {k - 1} split pieces in two patterns')
    elif shape == 'huge':
        if not _guarded:
            return _huge_in_child(entry, L)
        attempt(['{1..100000000}'], [], True, 'huge range')
        attempt(['a', '{1..100000000}'], [], True, 'huge range as second pattern')
        if L >= 2:
            attempt([_brace('', L - 1), '{1..100000000}'], [], True, 'huge range after L-1 expansions')
            attempt([_brace('', L), '{1..100000000}'], [], True, 'huge range after exactly L expansions')
    return bad


def _huge_in_child(entry, L):
    """`{1..100000000}` must fail fast: run in a child with a wall-clock and an address-space limit, so that a tree which
    materialises the range is reported instead of hanging the check."""
    import json
    import os
    import resource
    import subprocess
    import sys

    def lim():
        resource.setrlimit(resource.RLIMIT_AS, (3 << 30, 3 << 30))
    from engine.common import REPO, VERIF
    code = (f'import json,sys; sys.path[:0]=[{REPO!r},{VERIF!r}]; from engine import replayfn; '
            f'print("RESULT"+json.dumps(replayfn.limit_boundary({entry!r}, {L}, "huge", True)))')
    try:
        p = subprocess.run([sys.executable, '-c', code], capture_output=True, text=True, timeout=40, preexec_fn=lim,
                           env=dict(os.environ, PYTHONDONTWRITEBYTECODE='1'))
    except subprocess.TimeoutExpired:
        return ['huge range: no PatternLimitException within 40 s (expansion is being materialised)']
    for line in p.stdout.splitlines():
        if line.startswith('RESULT'):
            return json.loads(line[6:])
    return ['huge range: child failed (memory limit / crash): ' + (p.stderr or '')[-200:]]


def _names(prefix, n):
    if n <= 0:
        return None
    items = [f'{prefix}{k}' for k in range(n)]
    return items[0] if n == 1 else '{' + ','.join(items) + '}'


def limit_law_public(fname, args):
    """Replay of a CrossHair counterexample of harness/xh_c11.py through the public API with the real bracex."""
    import bracex
    from wcmatch import fnmatch as F, glob as G, _wcparse
    parts = fname.split('_')
    entry = parts[1]
    if entry == 'history':
        L0, L, n1, n2, e1 = args
        n3 = e2 = 0
        dup, inline = (parts[2][0] == 'd'), (parts[2][1] == 'i')
    else:
        L, n1, n2, n3, e1, e2 = args
        L0 = None
        dup, inline = (parts[2][0] == 'd'), (parts[2][1] == 'i')
    incl = [p for p in (_names('a', n1), _names('a' if dup else 'b', n2), _names('c', n3)) if p]
    excl = [p for p in (_names('x', e1), _names('y', e2)) if p]
    pulled = [0]
    handed = []
    real = bracex.iexpand

    def counting(p, keep_escapes=False, limit=1000):
        handed.append(limit)
        for item in real(p, keep_escapes=keep_escapes, limit=limit):
            pulled[0] += 1
            yield item
    bracex.iexpand = counting
    try:
        def call(lim):
            flags = F.BRACE | (F.NEGATE if inline else 0)
            pats = incl + (['!' + e for e in excl] if inline else [])
            ex = None if inline else (excl or None)
            if entry == 'translate':
                return F.translate(pats, flags=flags, limit=lim, exclude=ex)
            if entry == 'glob':
                return G.glob(pats, flags=G.BRACE | (G.NEGATE if inline else 0), limit=lim, exclude=ex, root_dir='/nonexistent-wcverif')
            return F.compile(pats, flags=flags, limit=lim, exclude=ex)
        if L0 is not None:
            try:
                call(L0)
            except _wcparse.PatternLimitException:
                pass
            pulled[0] = 0
            handed.clear()
        try:
            call(L)
            raised = False
        except _wcparse.PatternLimitException:
            raised = True
    finally:
        bracex.iexpand = real
    total = n1 + n2 + n3 + e1 + e2
    uniq = (max(n1, n2) + n3 + e1 + e2) if dup else total
    if L > 0:
        if uniq > L and not raised:
            return False
        if total <= L and raised:
            return False
        if pulled[0] > L + 6:
            return False
        if any(h < 1 or h > L for h in handed):
            return False
    elif raised or any(h != 0 for h in handed):
        return False
    return True


def limit_law_harness(call):
    from props.c11 import eval_call
    return eval_call(call)[2]


def harness_call(harness_file, call):
    """Evaluate one call of a harness function (harness/<file>) on concrete values against the real code."""
    import os
    from engine import xh
    from engine.common import VERIF
    return xh.eval_call(os.path.join(VERIF, 'harness', harness_file), call)[2]


def fs_check(check_name, root, params, slots):
    """Run one file-system check function (engine/fscheck.py) against a real materialised tree."""
    from engine import fscheck
    res = getattr(fscheck, check_name)(root, *params, slots=slots)
    return res['viol']


def capture_marker(mode, pattern, marked_pattern, k, name, kw):
    """C08 capture clause: [translate(pattern) with `<` `>` around the body of capture group k+1 fully matches `name`,
    the real matcher of `marked_pattern` (same markers around extended group k+1) accepts `name`]."""
    import re
    from props.c08 import mark_regex
    m = _mod(mode)
    inc, _exc = m.translate(pattern, **kw)
    t2 = mark_regex(inc[0], k)
    return [bool(name) and re.fullmatch(t2, name) is not None, matcher_accepts(mode, marked_pattern, name, kw)]


def c10_outcome(text, flags):
    from props.c10 import make_func
    return make_func(flags)(text)


def c10_seed_failures():
    from props.c10 import seed_layer
    return seed_layer()[0]


def c19_history(history):
    """Replay one call history in this (fresh) interpreter against cold answers computed in further fresh interpreters."""
    import shutil
    import tempfile
    from props import c19
    base = tempfile.mkdtemp(prefix='wcverif_c19r_')
    try:
        cold = {}
        for st, cid in {tuple(x) for x in history}:
            d = base + f'/cold_{st}_{cid}'
            import os
            os.makedirs(d)
            k, v = c19.cold_worker((d, st, cid))
            cold[k] = v
        hist = [tuple(x) for x in history]
        wd = base + '/w'
        os.makedirs(wd)
        bad, _n = c19.history_worker((wd, [hist], cold))
        return bad == []
    finally:
        shutil.rmtree(base, ignore_errors=True)


def c19_algebra():
    from props import c19
    from engine import common
    return c19.algebra(common.Ctx('C19'))[0]

"""Small helper functions callable from replay files (run against the real, unpatched code)."""
from __future__ import annotations
import re


def _mod(mode):
    from wcmatch import fnmatch, glob
    return fnmatch if mode == 'fn' else glob


def translate_accepts(mode, pats, name, kwargs):
    """Does the translate() output accept `name` (some include regex, no exclude regex, non-empty)?"""
    inc, exc = _mod(mode).translate(pats, **kwargs)
    if not name:
        return False
    return any(re.compile(r).fullmatch(name) for r in inc) and not any(re.compile(r).fullmatch(name) for r in exc)


def translate_and_compile_ok(mode, pats, kwargs):
    """translate() output compiles and compile()/match do not raise re.error etc. Documented errors count as ok
    only when both translate and compile raise the same documented exception."""
    m = _mod(mode)
    documented = (m._wcparse.PatternLimitException, SyntaxError, TypeError, ValueError, LookupError)
    try:
        inc, exc = m.translate(pats, **kwargs)
    except documented as e:
        try:
            m.compile(pats, **kwargs)
        except documented as e2:
            return type(e) is type(e2)
        return False
    for r in list(inc) + list(exc):
        re.compile(r)
    m.compile(pats, **kwargs)
    return True


def matcher_accepts(mode, pats, name, kwargs):
    fn = 'fnmatch' if mode == 'fn' else 'globmatch'
    return getattr(_mod(mode), fn)(name, pats, **kwargs)


def group_count(mode, pats, kwargs):
    inc, _ = _mod(mode).translate(pats, **kwargs)
    return [re.compile(r).groups for r in inc]


def decomposed_accepts(mode, incs, excs, name, single_flags, neg_all):
    """OR(single inclusion matches) AND NOT OR(single exclusion matches with DOTMATCH forced)."""
    m = _mod(mode)
    fn = getattr(m, 'fnmatch' if mode == 'fn' else 'globmatch')
    dflag = m.DOTMATCH if mode == 'fn' else m.DOTGLOB
    nodir = getattr(m, 'NODIR', 0)
    hit = any(p != '' and fn(name, p, flags=single_flags) for p in incs)
    if neg_all:
        hit = hit or fn(name, '**', flags=single_flags | (m.GLOBSTAR if mode == 'gl' else 0))
    if not hit:
        return False
    return not any(e != '' and fn(name, e, flags=(single_flags | dflag) & ~nodir) for e in excs)


def list_lengths(mode, pats, kwargs):
    m = _mod(mode)
    t = m.translate(pats, **kwargs)
    c = m.compile(pats, **kwargs)._matcher
    return [[len(t[0]), len(t[1])], [len(c._include), len(c._exclude or ())]]


def _enc(p):
    if isinstance(p, list):
        return [x.encode('latin-1') for x in p]
    return p.encode('latin-1') if p is not None else None


def bytes_str_agree(mode, pats, kwargs, name=None):
    """The bytes call and the str call agree: translate (encoded), escape, is_magic, and the match verdict on `name`
    (given as bytes; the str name is its Latin-1 decoding)."""
    m = _mod(mode)
    kb = dict(kwargs)
    if kb.get('exclude') is not None:
        kb['exclude'] = _enc(kb['exclude'])

    def call(f, *a, **k):
        try:
            return ('ok', f(*a, **k))
        except Exception as e:  # noqa: BLE001
            return ('exc', type(e).__name__)
    ts, tb = call(m.translate, pats, **kwargs), call(m.translate, _enc(pats), **kb)
    if ts[0] != tb[0] or (ts[0] == 'exc' and ts[1] != tb[1]):
        return False
    for single in (pats if isinstance(pats, list) else [pats]):
        if m.escape(single).encode('latin-1') != m.escape(single.encode('latin-1')):
            return False
        if m.is_magic(single, flags=kwargs.get('flags', 0)) != m.is_magic(single.encode('latin-1'), flags=kwargs.get('flags', 0)):
            return False
    if ts[0] == 'ok' and all(ord(c) < 128 for c in ''.join(pats if isinstance(pats, list) else [pats])):
        enc = ([x.encode('latin-1') for x in ts[1][0]], [x.encode('latin-1') for x in ts[1][1]])
        txt = repr(ts[1]) + repr(tb[1])
        if (enc[0] != list(tb[1][0]) or enc[1] != list(tb[1][1])) and '\\U0010ffff' not in txt and '\\xff' not in txt and 'ÿ' not in txt:
            return False
    if name is not None:
        fn = getattr(m, 'fnmatch' if mode == 'fn' else 'globmatch')
        a = call(fn, name.decode('latin-1'), pats, **kwargs)
        b = call(fn, name, _enc(pats), **kb)
        if a != b:
            return False
    return True


def mixed_type_failures():
    from props.c18 import mixed_type_cases
    return mixed_type_cases()


def escape_check(kind, mode, s, flags, name):
    """Does the (escaped / non-magic) pattern built from s accept `name`?"""
    m = _mod(mode)
    if kind == 'nonmagic':
        pat = s
    elif mode == 'fn':
        pat = m.escape(s)
    else:
        f = flags
        if f & m.FORCEWIN and f & m.FORCEUNIX:
            f ^= m.FORCEWIN | m.FORCEUNIX
        pat = m.escape(s, unix=not bool(f & m.FORCEWIN))
    fn = getattr(m, 'fnmatch' if mode == 'fn' else 'globmatch')
    return fn(name, pat, flags=flags & ~getattr(m, 'REALPATH', 0)) if not (flags & getattr(m, 'REALPATH', 0)) else _regex_accepts(m, pat, flags, name)


def _regex_accepts(m, pat, flags, name):
    c = m.compile(pat, flags=flags)._matcher
    return bool(name) and any(p.fullmatch(name) for p in c._include) and not any(p.fullmatch(name) for p in (c._exclude or ()))


def rawchars_agree(kind, mode, p, flags, is_bytes, name):
    """Replay of a C20 obligation on one concrete name (or of the exception-class comparison)."""
    from props.c20 import decode, unescape_plain, Predicted
    m = _mod(mode)
    fn = getattr(m, 'fnmatch' if mode == 'fn' else 'globmatch')
    cv = (lambda t: t.encode('latin-1')) if is_bytes else (lambda t: t)
    if kind == 'raw':
        try:
            ref, pred = decode(p, is_bytes), None
        except Predicted as ex:
            ref, pred = None, ex.name
        try:
            m.compile(cv(p), flags=flags | m.RAWCHARS)
            got = None
        except Exception as ex:  # noqa: BLE001
            got = type(ex).__name__
        if pred or got:
            return (pred == got) or (pred == 'KeyError' and got in ('KeyError', 'LookupError')) or (pred == 'ValueError' and got in ('ValueError', 'OverflowError'))
        if name is None:
            return True
        return fn(name, cv(p), flags=flags | m.RAWCHARS) == fn(name, cv(ref), flags=flags)
    ref = unescape_plain(p)
    if name is None:
        return True
    return fn(name, cv(p), flags=flags) == fn(name, cv(ref), flags=flags)

"""E1 `rxsmt`: CPython regex (as parsed by the interpreter's own re._parser) -> bounded SMT formula
over a symbolic string.

A symbolic string is `c[0..N-1]` (bit-vectors) plus a length `L` in [0, N].  `M(node, i)` is a finite
map {j: phi}: the node can consume s[i:j] when phi holds.  `fullmatch` is OR_j (M(root,0)[j] and L == j).

Only constructs whose membership semantics are position-independent-of-backtracking are accepted;
anything else (GROUPREF, look-behind, atomic groups, possessive repeats, categories) raises
NotEncodable, which callers turn into an inconclusive verdict (never a pass).
"""
from __future__ import annotations
import re
import re._parser as sp
import re._constants as sc
import re._compiler as scomp
import z3

MAXCP = 0x10FFFF

# Alphabet used whenever a case-insensitive `str` regex is encoded: names containing other code
# points are outside the case-insensitive claims (stated in evidence).
SIGMA_I = sorted(set(range(0, 0x250)) | {0x212A, 0x1E9E, 0xFB05, 0xFB06, 0x0390, 0x1FD3, 0x3B0, 0x1FE3, 0x10FFFF})


class NotEncodable(Exception):
    pass


class SymStr:
    """A bounded symbolic string (str: 21-bit code points, bytes: 8-bit)."""

    LW = 6

    def __init__(self, name: str, N: int, is_bytes: bool = False):
        self.name = name
        self.N = N
        self.is_bytes = is_bytes
        self.w = 8 if is_bytes else 21
        self.c = [z3.BitVec(f'{name}_c{i}', self.w) for i in range(N)]
        self.L = z3.BitVec(f'{name}_L', self.LW)

    def lv(self, i):
        return z3.BitVecVal(i, self.LW)

    def len_gt(self, i):      # L > i
        return z3.UGT(self.L, self.lv(i))

    def len_eq(self, i):
        return self.L == self.lv(i)

    def len_ge(self, i):
        return z3.UGE(self.L, self.lv(i))

    def cv(self, v):
        return z3.BitVecVal(v, self.w)

    def base_constraints(self):
        cons = [z3.ULE(self.L, self.lv(self.N))]
        if not self.is_bytes:
            cons += [z3.ULE(ch, self.cv(MAXCP)) for ch in self.c]
        return cons

    def in_set(self, ch, codepoints):
        return z3.Or(*[z3.And(z3.UGE(ch, self.cv(a)), z3.ULE(ch, self.cv(b))) if a != b else ch == self.cv(a)
                       for a, b in runs(codepoints)]) if codepoints else z3.BoolVal(False)

    def alphabet_constraints(self, alphabet):
        """Every used position holds a member of `alphabet` (sorted code points)."""
        return [self.in_set(ch, alphabet) for ch in self.c]

    def in_intervals(self, ch, ivs):
        if not ivs:
            return z3.BoolVal(False)
        return z3.Or(*[(z3.And(z3.UGE(ch, self.cv(a)), z3.ULE(ch, self.cv(b))) if a != b else ch == self.cv(a))
                       for a, b in ivs])

    def eq_const(self, s):
        """Formula: the symbolic string equals the concrete `s`."""
        if len(s) > self.N:
            return z3.BoolVal(False)
        vals = list(s) if self.is_bytes else [ord(x) for x in s]
        return z3.And(self.len_eq(len(s)), *[self.c[i] == self.cv(v) for i, v in enumerate(vals)])

    def eval(self, model):
        n = model.eval(self.L, model_completion=True).as_long()
        vals = [model.eval(self.c[i], model_completion=True).as_long() for i in range(min(n, self.N))]
        return bytes(vals) if self.is_bytes else ''.join(chr(v) for v in vals)


def runs(codepoints):
    """Compress a sorted list of ints to maximal runs of consecutive integers."""
    out = []
    start = prev = None
    for v in codepoints:
        if start is None:
            start = prev = v
        elif v == prev + 1:
            prev = v
        else:
            out.append((start, prev))
            start = prev = v
    if start is not None:
        out.append((start, prev))
    return out


def runs_rel(members, alphabet_index):
    """Compress members (subset of an alphabet) to intervals that contain no alphabet member outside
    the subset: adjacency is taken in the alphabet's order, so intervals stay short in number."""
    out = []
    start = prev = None
    for v in members:
        if start is None:
            start = prev = v
        elif alphabet_index[v] == alphabet_index[prev] + 1:
            prev = v
        else:
            out.append((start, prev))
            start = prev = v
    if start is not None:
        out.append((start, prev))
    return out


_SIGMA_I_STR = ''.join(chr(c) for c in SIGMA_I)
_SIGMA_I_INDEX = {c: k for k, c in enumerate(SIGMA_I)}
_ALL_BYTES = bytes(range(256))
_class_cache: dict = {}


def _freeze(av):
    if isinstance(av, list):
        return tuple(_freeze(x) for x in av)
    if isinstance(av, tuple):
        return tuple(_freeze(x) for x in av)
    return av


def engine_class(node, flags, is_bytes):
    """Accepted subset of the finite alphabet for a single-character node, decided by the real engine."""
    key = (node[0], _freeze(node[1]), flags & (re.I | re.S | re.A | re.U | re.L), is_bytes)
    r = _class_cache.get(key)
    if r is not None:
        return r
    st = sp.State()
    st.flags = flags & (re.I | re.S | re.A | re.U)
    if is_bytes:
        st.str = b''
        st.flags &= ~re.U
    else:
        st.str = ''
        if not st.flags & re.A:            # re.ASCII restricts case folding (and categories) to ASCII
            st.flags |= re.U
    sub = sp.SubPattern(st, [node])
    pat = scomp.compile(sub, st.flags)
    if is_bytes:
        got = sorted(set(x[0] for x in pat.findall(_ALL_BYTES)))
    else:
        got = sorted(set(ord(x) for x in pat.findall(_SIGMA_I_STR)))
    _class_cache[key] = got
    return got


_cat_cache: dict = {}


def category_intervals(cat, flags):
    """Intervals of all code points in an sre CATEGORY (\\d, \\w, \\s and negations), decided by the real engine once per process."""
    key = (str(cat), flags & (re.A | re.U))
    r = _cat_cache.get(key)
    if r is None:
        st = sp.State()
        st.flags = (flags & re.A) | (0 if flags & re.A else re.U)
        st.str = ''
        pat = scomp.compile(sp.SubPattern(st, [(sc.IN, [(sc.CATEGORY, cat)])]), st.flags)
        hits = []
        for base in range(0, MAXCP + 1, 0x10000):
            chunk = ''.join(map(chr, range(base, min(base + 0x10000, MAXCP + 1))))
            hits.extend(ord(x) for x in pat.findall(chunk))
        r = runs(hits)
        _cat_cache[key] = r
    return r


def node_intervals(node, flags):
    """Exact accepted intervals over 0..MAXCP for a single-char node in case-sensitive str mode."""
    op, av = node
    if op is sc.ANY:
        return [(0, MAXCP)] if flags & re.S else [(0, 9), (11, MAXCP)]
    if op is sc.LITERAL:
        return [(av, av)]
    if op is sc.NOT_LITERAL:
        return complement([(av, av)])
    if op is sc.IN:
        neg = False
        ivs = []
        for o, a in av:
            if o is sc.NEGATE:
                neg = True
            elif o is sc.LITERAL:
                ivs.append((a, a))
            elif o is sc.RANGE:
                ivs.append((a[0], a[1]))
            elif o is sc.CATEGORY:
                ivs.extend(category_intervals(a, flags))
            else:
                raise NotEncodable(f'class item {o}')
        ivs = normalise(ivs)
        return complement(ivs) if neg else ivs
    raise NotEncodable(str(op))


def normalise(ivs):
    ivs = sorted(ivs)
    out = []
    for a, b in ivs:
        if out and a <= out[-1][1] + 1:
            out[-1] = (out[-1][0], max(out[-1][1], b))
        else:
            out.append((a, b))
    return out


def complement(ivs, hi=MAXCP):
    out = []
    cur = 0
    for a, b in normalise(ivs):
        if a > cur:
            out.append((cur, a - 1))
        cur = b + 1
    if cur <= hi:
        out.append((cur, hi))
    return out


_CHAR_OPS = (sc.ANY, sc.LITERAL, sc.NOT_LITERAL, sc.IN)

TRUE = z3.BoolVal(True)
FALSE = z3.BoolVal(False)


def OR(a, b):
    if a is FALSE:
        return b
    if b is FALSE:
        return a
    if a is TRUE or b is TRUE:
        return TRUE
    return z3.Or(a, b)


def AND(a, b):
    if a is TRUE:
        return b
    if b is TRUE:
        return a
    if a is FALSE or b is FALSE:
        return FALSE
    return z3.And(a, b)


def merge(dst, k, f):
    if f is FALSE:
        return
    dst[k] = OR(dst[k], f) if k in dst else f


class RxEnc:
    """Encoder of parsed regexes over one SymStr."""

    def __init__(self, sym: SymStr):
        self.s = sym
        self.memo = {}
        self.keep = []            # keep parsed trees alive (memo keys use id())
        self.ci_used = False      # a case-insensitive str node was encoded => alphabet SIGMA_I applies
        self.nodes = 0

    # --- single characters -------------------------------------------------------------
    def char(self, node, i, flags):
        s = self.s
        if i >= s.N:
            return {}
        ch = s.c[i]
        if s.is_bytes:
            if flags & re.I:
                f = s.in_set(ch, engine_class(node, flags, True))
            else:
                ivs = [(a, min(b, 255)) for a, b in node_intervals(node, flags) if a <= 255]
                f = s.in_intervals(ch, ivs)
        elif flags & re.I:
            self.ci_used = True
            members = engine_class(node, flags, False)
            f = s.in_intervals(ch, runs_rel(members, _SIGMA_I_INDEX))
        else:
            f = s.in_intervals(ch, node_intervals(node, flags))
        return {i + 1: AND(s.len_gt(i), f)}

    # --- composition -------------------------------------------------------------------
    def seq(self, items, i, flags):
        cur = {i: TRUE}
        for it in items:
            nxt = {}
            for j, cj in cur.items():
                for k, ck in self.m(it, j, flags).items():
                    merge(nxt, k, AND(cj, ck))
            cur = nxt
            if not cur:
                break
        return cur

    def m(self, node, i, flags):
        key = (id(node), i, flags)
        r = self.memo.get(key)
        if r is None:
            r = self._m(node, i, flags)
            self.memo[key] = r
            self.nodes += 1
        return r

    def _m(self, node, i, flags):
        op, av = node
        s = self.s
        if op in _CHAR_OPS:
            return self.char(node, i, flags)
        if op is sc.SUBPATTERN:
            _g, add, dele, p = av
            return self.seq(list(p), i, (flags | add) & ~dele)
        if op is sc.BRANCH:
            out = {}
            for alt in av[1]:
                for k, ck in self.seq(list(alt), i, flags).items():
                    merge(out, k, ck)
            return out
        if op in (sc.MAX_REPEAT, sc.MIN_REPEAT):
            lo, hi, p = av
            items = list(p)
            res = {}
            cur = {i: TRUE}
            if lo == 0:
                merge(res, i, TRUE)
            t = 0
            limit = lo + s.N + 1
            while True:
                t += 1
                if hi is not sc.MAXREPEAT and t > hi:
                    break
                if t > limit:
                    break
                nxt = {}
                for j, cj in cur.items():
                    for k, ck in self.seq(items, j, flags).items():
                        if k == j and t > lo:
                            continue      # an empty iteration beyond the minimum adds nothing
                        merge(nxt, k, AND(cj, ck))
                if not nxt:
                    break
                if t >= lo:
                    for k, ck in nxt.items():
                        merge(res, k, ck)
                cur = nxt
            return res
        if op is sc.AT:
            if av is sc.AT_BEGINNING:
                return {i: TRUE} if i == 0 else {}
            if av is sc.AT_END:
                c = s.len_eq(i)
                if i < s.N:
                    c = z3.Or(c, z3.And(s.len_eq(i + 1), s.c[i] == s.cv(10)))
                return {i: c}
            if av is sc.AT_END_STRING:
                return {i: s.len_eq(i)}
            if av is sc.AT_BEGINNING_STRING:
                return {i: TRUE} if i == 0 else {}
            raise NotEncodable(f'AT {av}')
        if op in (sc.ASSERT, sc.ASSERT_NOT):
            d, p = av
            if d != 1:
                raise NotEncodable('look-behind')
            r = self.seq(list(p), i, flags)
            c = FALSE
            for v in r.values():
                c = OR(c, v)
            if op is sc.ASSERT:
                return {i: c} if c is not FALSE else {}
            return {i: z3.Not(c) if c is not FALSE else TRUE}
        raise NotEncodable(str(op))

    # --- entry points ------------------------------------------------------------------
    def parse(self, rx):
        flags = 0
        if isinstance(rx, tuple):
            rx, flags = rx
        if isinstance(rx, re.Pattern):
            rx, flags = rx.pattern, rx.flags
        if isinstance(rx, bytes) != self.s.is_bytes:
            raise NotEncodable('regex type does not match symbolic string type')
        if flags & (re.M | re.X | re.L):
            raise NotEncodable('MULTILINE/VERBOSE/LOCALE regex flags')
        p = sp.parse(rx, flags & (re.I | re.S | re.A | re.U))
        self.keep.append(p)
        return p

    def full(self, rx, method='fullmatch'):
        """Formula for `re.compile(rx).<method>(s) is not None` (fullmatch: whole string; match: anchored at 0, any end)."""
        p = self.parse(rx)
        fl = p.state.flags
        r = self.seq(list(p), 0, fl)
        out = FALSE
        for k, c in r.items():
            if method == 'fullmatch':
                out = OR(out, AND(c, self.s.len_eq(k)))
            elif method == 'match':
                out = OR(out, AND(c, self.s.len_ge(k)))
            else:
                raise NotEncodable(f'regex method {method}')
        return out

    def any_full(self, rxs, method='fullmatch'):
        out = FALSE
        for rx in rxs:
            out = OR(out, self.full(rx, method))
        return out

    def matcher(self, include, exclude):
        """WcRegexp semantics without REALPATH: non-empty, some include, no exclude - consulting each regex with the method the
        real wrapper (_wcmatch._Match.match) is observed to call on this run."""
        mi, me = wrapper_methods()
        f = AND(self.s.len_ge(1), self.any_full(include, mi))
        if exclude:
            f = AND(f, z3.Not(self.any_full(exclude, me)))
        return f

    def matcher_fullmatch(self, include, exclude):
        """Statement-level meaning of a translate() result: non-empty name fully matches some include and no exclude regex."""
        f = AND(self.s.len_ge(1), self.any_full(include, 'fullmatch'))
        if exclude:
            f = AND(f, z3.Not(self.any_full(exclude, 'fullmatch')))
        return f

    def side_constraints(self):
        cons = self.s.base_constraints()
        if self.ci_used and not self.s.is_bytes:
            cons += self.s.alphabet_constraints(SIGMA_I)
        return cons


class Query:
    """One solver query with timing; `unknown` is never a pass."""

    def __init__(self, timeout_ms=60000):
        self.solver = z3.SolverFor('QF_BV')
        self.solver.set('timeout', timeout_ms)

    def add(self, *fs):
        for f in fs:
            if isinstance(f, (list, tuple)):
                self.solver.add(*f)
            else:
                self.solver.add(f)

    def check(self):
        import time
        t = time.time()
        r = str(self.solver.check())
        self.time = time.time() - t
        return r

    def model(self):
        return self.solver.model()


def matcher_regexes(wc):
    """(include patterns, exclude patterns) actually executed by a compiled wcmatch matcher."""
    m = getattr(wc, '_matcher', wc)
    inc = [rx_of(p) for p in m._include]
    exc = [rx_of(p) for p in (m._exclude or ())]
    return inc, exc


def rx_of(p):
    """Regex text of a compiled pattern; compile-time flags that change membership are kept alongside the text."""
    default = re.compile(p.pattern).flags
    if p.flags == default:
        return p.pattern
    return (p.pattern, p.flags)


_methods = None
_variants = None
VARIANT = 0


def method_variants():
    """Which regex method the real non-REALPATH matcher calls on include / exclude patterns, observed with spy objects on every
    entry point that consults compiled regexes: `_Match.match` (fnmatch / globmatch), `WcRegexp.match` (a compiled matcher) and
    `WcRegexp.filter` (filter / globfilter).  Returns the list of distinct (include method, exclude method) pairs, the one of
    `_Match.match` first; normally there is exactly one."""
    global _variants
    if _variants is None:
        from wcmatch import _wcmatch as M

        class Spy:
            pattern = 'spy'

            def __init__(self):
                self.used = []

            def __getattr__(self, name):
                if name in ('fullmatch', 'match', 'search'):
                    def f(s, *a, **k):
                        self.used.append(name)
                        return object()
                    return f
                raise AttributeError(name)
        out = []
        for entry in ('direct', 'compiled.match', 'compiled.filter'):
            a, b = Spy(), Spy()
            try:
                if entry == 'direct':
                    M._Match('name', (a,), (b,), False, False, False).match()
                elif entry == 'compiled.match':
                    M.WcRegexp((a,), (b,), False, False, False).match('name')
                else:
                    M.WcRegexp((a,), (b,), False, False, False).filter(['name'])
            except Exception as ex:  # noqa: BLE001
                raise NotEncodable(f'matcher wrapper ({entry}) failed on spy regexes: {ex!r}')
            if len(a.used) != 1 or len(b.used) != 1:
                raise NotEncodable(f'matcher wrapper ({entry}) consulted its regexes unexpectedly: {a.used} {b.used}')
            pair = (a.used[0], b.used[0])
            if pair not in out:
                out.append(pair)
        _variants = out
    return _variants


def wrapper_methods():
    """The (include, exclude) regex methods of the variant under examination (props.runner repeats a property's run for every
    further variant, so that each entry point's own reading of the regexes is decided)."""
    v = method_variants()
    return v[min(VARIANT, len(v) - 1)]

"""Specification side of E1: the documented wildcard language as an independent AST semantics, encoded
positionally over the same symbolic string as the implementation's regex (engine/rxsmt.py).

The AST is the generator's (engine/gen.py); patterns are rendered *from* it, so there is no second parser.
Three-valued: `must` (the statement grants the match) and `may` (the statement permits it); for patterns in
the *exact* fragment both coincide.  Everything the property statements leave open lives in may minus must.

Dot rule (C03) is built in: at a segment start (name position == start index of the segment), unless DOTMATCH,
a '.' can only be consumed by a written dot ('lit','.').  Path rules (C02): a segment pattern matches exactly one
non-empty '/'-free path segment; separators only by written separators; whole-segment ** / *** are globstars.
"""
from __future__ import annotations
import z3

from engine.rxsmt import SymStr, TRUE, FALSE, OR, AND, merge

DOT = 46
SLASH = 47


def swap_ascii(v):
    if 65 <= v <= 90:
        return v + 32
    if 97 <= v <= 122:
        return v - 32
    return v


def is_exact_segment(nodes):
    """Exact fragment: every `neg` is top-level in the segment, followed only by literals, without nested negation."""
    for k, n in enumerate(nodes):
        if n[0] == 'neg':
            if any(t[0] != 'lit' for t in nodes[k + 1:]):
                return False
            if any(_has_neg(a) for a in n[1]):
                return False
        elif n[0] == 'grp':
            if any(_has_neg(a) for a in n[2]):
                return False
    return True


def _has_neg(nodes):
    for n in nodes:
        if n[0] == 'neg':
            return True
        if n[0] == 'grp' and any(_has_neg(a) for a in n[2]):
            return True
    return False


def seg_all_stars(nodes):
    return bool(nodes) and all(n[0] == 'star' for n in nodes)


def first_kinds(nodes):
    """Set of node classes that can consume the first character of a match of `nodes`:
    'dot' (written dot), 'wild' (?, *, bracket, negation), 'lit' (other literal); plus whether nodes are nullable."""
    kinds = set()
    nullable = True
    for n in nodes:
        k = n[0]
        if k == 'lit':
            kinds.add('dot' if n[1] == '.' else 'lit')
            nullable = False
            break
        if k in ('q', 'cls'):
            kinds.add('wild')
            nullable = False
            break
        if k == 'star':
            kinds.add('wild')
            continue
        if k == 'neg':
            kinds.add('wild')
            continue
        if k == 'grp':
            sub_null = n[1] in '?*'
            for a in n[2]:
                ks, an = first_kinds(a)
                kinds |= ks
                sub_null = sub_null or an
            if not sub_null:
                nullable = False
                break
    return kinds, nullable


class Spec:
    def __init__(self, sym: SymStr, *, path: bool, dot: bool, ci: bool = False, nodotdir: bool = False,
                 relaxed: bool = False, empty_segments: bool = False, static_guard: bool = False):
        """relaxed=True builds MAY for non-exact patterns (negations become unconstrained runs)."""
        self.s = sym
        self.path = path
        self.dot = dot
        self.ci = ci
        self.nodotdir = nodotdir
        self.relaxed = relaxed
        self.static_guard = static_guard          # footprint of a listed finding: start guards only on the statically first node
        self.empty_segments = empty_segments      # footprint of a listed finding: a segment pattern may match an empty segment
        self.memo = {}

    # --- character predicates ---------------------------------------------------------------------------
    def ch_eq(self, i, v):
        s = self.s
        f = s.c[i] == s.cv(v)
        if self.ci and swap_ascii(v) != v:
            f = z3.Or(f, s.c[i] == s.cv(swap_ascii(v)))
        return f

    def ch_in(self, i, ivs, neg):
        s = self.s
        ch = s.c[i]
        parts = []
        for a, b in ivs:
            parts.append((a, b))
            if self.ci:
                # some ASCII case variant of the name character is in the interval
                for lo, hi, d in ((65, 90, 32), (97, 122, -32)):
                    x, y = max(a, lo), min(b, hi)
                    if x <= y:
                        parts.append((x + d, y + d))
        f = s.in_intervals(ch, parts)
        return z3.Not(f) if neg else f

    def noslash(self, i):
        return self.s.c[i] != self.s.cv(SLASH) if self.path else TRUE

    def wild_ok(self, i, i0, w, st=True):
        """Constraint for a wildcard construct consuming the character at position i."""
        f = self.noslash(i)
        if i == i0 and (st or not self.static_guard):
            if w:
                return FALSE
            if not self.dot:
                f = AND(f, self.s.c[i] != self.s.cv(DOT))
        return f

    # --- node maps --------------------------------------------------------------------------------------
    def m(self, node, i, i0, w, st=True):
        if not self.static_guard:
            st = True
        key = (node, i, i0, w, st)
        r = self.memo.get(key)
        if r is None:
            r = self._m(node, i, i0, w, st)
            self.memo[key] = r
        return r

    def _m(self, n, i, i0, w, st):
        s = self.s
        k = n[0]
        if k == 'lit':
            if i >= s.N:
                return {}
            v = ord(n[1])
            if i == i0 and w and v != DOT and st:
                return {}
            return {i + 1: AND(s.len_gt(i), self.ch_eq(i, v))}
        if k == 'q':
            if i >= s.N:
                return {}
            g = self.wild_ok(i, i0, w, st)
            return {} if g is FALSE else {i + 1: AND(s.len_gt(i), g)}
        if k == 'cls':
            if i >= s.N:
                return {}
            g = self.wild_ok(i, i0, w, st)
            return {} if g is FALSE else {i + 1: AND(s.len_gt(i), AND(g, self.ch_in(i, n[3], n[2])))}
        if k == 'star':
            return self.run(i, i0, w, st)
        if k == 'grp':
            kind = n[1]
            if kind == '@':
                return self.alts(n[2], i, i0, w, st)
            if kind == '?':
                r = dict(self.alts(n[2], i, i0, w, st))
                merge(r, i, TRUE)
                return r
            return self.repeat(n[2], i, i0, w, 0 if kind == '*' else 1, st)
        if k == 'neg':
            if self.relaxed:
                return self.run(i, i0, w, st)
            raise ValueError('neg outside the exact fragment must be handled by seq()/relaxed')
        raise ValueError(n)

    def run(self, i, i0, w, st=True):
        """Any run of permitted characters starting at i (the `*` language)."""
        s = self.s
        out = {i: TRUE}
        acc = TRUE
        for j in range(i, s.N):
            g = self.wild_ok(j, i0, w, st)
            if g is FALSE:
                break
            acc = AND(acc, AND(s.len_gt(j), g))
            out[j + 1] = acc
        return out

    def alts(self, alts, i, i0, w, st=True):
        out = {}
        for a in alts:
            for j, c in self.seq(a, i, i0, w, st=st).items():
                merge(out, j, c)
        return out

    def repeat(self, alts, i, i0, w, lo, st=True):
        s = self.s
        res = {}
        cur = {i: TRUE}
        if lo == 0:
            merge(res, i, TRUE)
        first = self.alts(alts, i, i0, w, st)
        if lo == 1 and i in first:
            merge(res, i, first[i])           # one empty occurrence
        for _t in range(s.N + 1):
            nxt = {}
            for j, cj in cur.items():
                for k2, ck in self.alts(alts, j, i0, w, st).items():
                    if k2 == j:
                        continue
                    merge(nxt, k2, AND(cj, ck))
            if not nxt:
                break
            for k2, ck in nxt.items():
                merge(res, k2, ck)
            cur = nxt
        return res

    def seq(self, nodes, i, i0, w, seg_end=None, st=True):
        """Map for a node sequence.  `seg_end(j)` (formula: the segment/name ends at j) is needed for exact negation."""
        cur = {i: TRUE}
        for idx, n in enumerate(nodes):
            stn = st and idx == 0
            if n[0] == 'neg' and not self.relaxed:
                tail = nodes[idx + 1:]
                return self._neg_tail(cur, n, tail, i0, w, seg_end, stn)
            nxt = {}
            for j, cj in cur.items():
                for k2, ck in self.m(n, j, i0, w, stn).items():
                    merge(nxt, k2, AND(cj, ck))
            cur = nxt
            if not cur:
                break
        return cur

    def _neg_tail(self, cur, neg, tail, i0, w, seg_end, st=True):
        """`!(alts)` followed only by literal text up to the end of the segment: s[j:e] matches no alternative."""
        s = self.s
        if seg_end is None:
            raise ValueError('exact negation needs the end-of-segment predicate')
        tl = len(tail)
        out = {}
        for j, cj in cur.items():
            inalt = self.alts(neg[1], j, i0, w, st)
            span = self.run(j, i0, w, st)    # the excluded part is a run of permitted characters (dot rule, no '/')
            for e, ce in span.items():
                end = e + tl
                if end > s.N:
                    continue
                f = AND(cj, ce)
                ia = inalt.get(e, FALSE)
                if ia is not FALSE:
                    f = AND(f, z3.Not(ia))
                pos = e
                ok = True
                for t in tail:
                    mm = self.m(t, pos, i0, w, False)
                    if pos + 1 not in mm:
                        ok = False
                        break
                    f = AND(f, mm[pos + 1])
                    pos += 1
                if not ok:
                    continue
                f = AND(f, seg_end(end))
                merge(out, end, f)
        return out

    # --- fnmatch mode -----------------------------------------------------------------------------------
    def name_full(self, nodes):
        s = self.s
        r = self.seq(nodes, 0, 0, False, seg_end=lambda j: s.len_eq(j))
        out = FALSE
        for j, c in r.items():
            out = OR(out, AND(c, s.len_eq(j)))
        return AND(s.len_ge(1), out)

    # --- path mode --------------------------------------------------------------------------------------
    def is_slash(self, i):
        return self.s.c[i] == self.s.cv(SLASH)

    def seg_end(self, j):
        s = self.s
        f = s.len_eq(j)
        if j < s.N:
            f = z3.Or(f, z3.And(s.len_gt(j), self.is_slash(j)))
        return f

    def dotdir(self, i0, j):
        s = self.s
        if j == i0 + 1:
            return s.c[i0] == s.cv(DOT)
        if j == i0 + 2:
            return z3.And(s.c[i0] == s.cv(DOT), s.c[i0 + 1] == s.cv(DOT))
        return FALSE

    def segment(self, nodes, i0):
        """{j: phi}: the segment pattern matches the whole path segment s[i0:j] (non-empty, '/'-free, ends at j)."""
        s = self.s
        key = ('SEG', nodes, i0)
        if key in self.memo:
            return self.memo[key]
        base = self.seq(nodes, i0, i0, False, seg_end=self.seg_end)
        written = self.seq(nodes, i0, i0, True, seg_end=self.seg_end)
        lits_only = all(n[0] == 'lit' for n in nodes)
        text = ''.join(n[1] for n in nodes) if lits_only else None
        out = {}
        for j, c in base.items():
            if j == i0 and not self.empty_segments:
                continue                       # a path segment is never empty
            dd = self.dotdir(i0, j)
            if dd is FALSE:
                f = c
            else:
                if self.nodotdir and not self.static_guard:
                    allow = TRUE if text in ('.', '..') else FALSE
                else:
                    allow = written.get(j, FALSE)
                f = OR(AND(c, z3.Not(dd)), AND(AND(allow, dd), c))
            merge(out, j, AND(f, self.seg_end(j)))
        self.memo[key] = out
        return out

    def free_segment(self, i0):
        """{j}: s[i0:j] is a segment a globstar may pass: non-empty, '/'-free, not hidden (unless dot), never . or .."""
        key = ('FREE', i0)
        if key in self.memo:
            return self.memo[key]
        out = {}
        for j, c in self.run(i0, i0, False).items():
            if j == i0:
                continue
            dd = self.dotdir(i0, j)
            f = c if dd is FALSE else AND(c, z3.Not(dd))
            merge(out, j, AND(f, self.seg_end(j)))
        self.memo[key] = out
        return out

    def slashes(self, i, least):
        """{j}: s[i:j] is a run of `least`-or-more separators."""
        s = self.s
        out = {}
        acc = TRUE
        if least == 0:
            out[i] = TRUE
        for j in range(i, s.N):
            acc = AND(acc, AND(s.len_gt(j), self.is_slash(j)))
            out[j + 1] = acc
        return out

    def rest_is_slashes(self, i, least):
        s = self.s
        out = FALSE
        for j, c in self.slashes(i, least).items():
            out = OR(out, AND(c, s.len_eq(j)))
        return out

    def path_full(self, items, *, globstar, globstarlong, matchbase, nodir=False, allow_abs_globstar=False):
        """Formula: the path pattern (generator items) matches the whole symbolic path."""
        s = self.s
        units = []
        lead = False
        trail = False
        seen_unit = False
        has_sep = False
        for it in items:
            if it[0] == 'sep':
                has_sep = True
                if not seen_unit:
                    lead = True
                else:
                    trail = True
            else:
                seen_unit = True
                trail = False
                units.append(self.unit(it, globstar, globstarlong))
        if not units:
            # only separators: matches runs of '/'
            return AND(s.len_ge(1), self.rest_is_slashes(0, 1))
        use_base = matchbase and not has_sep
        memo = {}

        def after_unit(u, j):
            """s[j:] after unit u ended at j."""
            if u == len(units) - 1:
                return self.rest_is_slashes(j, 1 if trail else 0)
            out = FALSE
            for j2, c in self.slashes(j, 1).items():
                out = OR(out, AND(c, match(u + 1, j2)))
            return out

        def match(u, i):
            key = (u, i)
            if key in memo:
                return memo[key]
            kind, nodes = units[u]
            out = FALSE
            if kind == 'seg':
                for j, c in self.segment(nodes, i).items():
                    out = OR(out, AND(c, after_unit(u, j)))
            else:
                last = u == len(units) - 1
                if last:
                    # zero or more free segments, trailing separators free (no directory demand after a final **)
                    out = OR(out, s.len_eq(i))
                    for j, c in self.free_segment(i).items():
                        tailf = s.len_eq(j)
                        for j2, c2 in self.slashes(j, 1).items():
                            tailf = OR(tailf, AND(c2, match(u, j2)))
                        out = OR(out, AND(c, tailf))
                else:
                    out = OR(out, match(u + 1, i))
                    for j, c in self.free_segment(i).items():
                        for j2, c2 in self.slashes(j, 1).items():
                            out = OR(out, AND(AND(c, c2), match(u, j2)))
                        if self.empty_segments:
                            out = OR(out, AND(c, match(u + 1, j)))
            memo[key] = out
            return out

        if use_base:
            units.insert(0, ('gs', None))
            body = FALSE
            for j, c in self.slashes(0, 0).items():
                body = OR(body, AND(c, match(0, j)))
        elif lead:
            body = FALSE
            for j, c in self.slashes(0, 1).items():
                body = OR(body, AND(c, match(0, j)))
        else:
            body = match(0, 0)
            if s.N > 0:
                rel = z3.Or(s.len_eq(0), z3.Not(self.is_slash(0)))
                if self.empty_segments:
                    body2 = FALSE
                    for j, c in self.slashes(0, 1).items():
                        body2 = OR(body2, AND(c, match(0, j)))
                    body = OR(body, body2)
                elif allow_abs_globstar and units[0][0] == 'gs':
                    body2 = FALSE
                    for j, c in self.slashes(0, 1).items():
                        body2 = OR(body2, AND(c, match(0, j)))
                    body = OR(AND(body, rel), body2)
                else:
                    body = AND(body, rel)
        f = AND(s.len_ge(1), body)
        if nodir:
            f = AND(f, z3.Not(self.dir_like()))
        return f

    def unit(self, it, globstar, globstarlong):
        if it[0] == 'gs':
            n = it[1]
            if (n == 2 and (globstar or globstarlong)) or (n == 3 and globstarlong):
                return ('gs', None)
            return ('seg', (('star', n),))
        nodes = it[1]
        if seg_all_stars(nodes):
            n = sum(x[1] for x in nodes)
            if (n == 2 and (globstar or globstarlong)) or (n == 3 and globstarlong):
                return ('gs', None)
        return ('seg', nodes)

    def dir_like(self):
        """NODIR's exclusion: the path ends in a separator or its last segment is . or .. (RE_NO_DIR reading)."""
        s = self.s
        out = FALSE
        for L in range(1, s.N + 1):
            here = s.len_eq(L)
            last = self.is_slash(L - 1)
            f = last
            # last segment (ignoring nothing: path does not end with '/') is '.' or '..'
            d1 = s.c[L - 1] == s.cv(DOT)
            one = z3.And(d1, (self.is_slash(L - 2) if L >= 2 else TRUE))
            two = FALSE
            if L >= 2:
                two = z3.And(d1, s.c[L - 2] == s.cv(DOT), (self.is_slash(L - 3) if L >= 3 else TRUE))
            f = z3.Or(f, one, two)
            out = OR(out, AND(here, f))
        return out


# ---------------------------------------------------------------------------------------------------------
# domain assumptions

def no_hidden_segments(sym: SymStr, path: bool):
    """No segment of the name/path begins with '.' (fnmatch mode: the name does not begin with '.')."""
    cons = []
    dot = sym.cv(DOT)
    if sym.N == 0:
        return cons
    cons.append(z3.Or(sym.len_eq(0), sym.c[0] != dot))
    if path:
        for i in range(1, sym.N):
            cons.append(z3.Or(z3.Not(sym.len_gt(i)), sym.c[i] != dot, sym.c[i - 1] != sym.cv(SLASH)))
    return cons


def some_hidden_segment(sym: SymStr, path: bool):
    dot = sym.cv(DOT)
    alts = [z3.And(sym.len_gt(0), sym.c[0] == dot)]
    if path:
        for i in range(1, sym.N):
            alts.append(z3.And(sym.len_gt(i), sym.c[i] == dot, sym.c[i - 1] == sym.cv(SLASH)))
    return z3.Or(*alts)


def no_dotdir_segments(sym: SymStr):
    """No path segment is exactly '.' or '..'."""
    cons = []
    dot = sym.cv(DOT)
    sl = sym.cv(SLASH)
    N = sym.N

    def start(i):
        return TRUE if i == 0 else sym.c[i - 1] == sl

    def end(j):
        f = sym.len_eq(j)
        if j < N:
            f = z3.Or(f, z3.And(sym.len_gt(j), sym.c[j] == sl))
        return f

    for i in range(N):
        one = z3.And(sym.len_gt(i), start(i), sym.c[i] == dot, end(i + 1))
        cons.append(z3.Not(one))
        if i + 1 < N:
            two = z3.And(sym.len_gt(i + 1), start(i), sym.c[i] == dot, sym.c[i + 1] == dot, end(i + 2))
            cons.append(z3.Not(two))
    return cons


def ascii_only(sym: SymStr):
    return [z3.ULE(ch, sym.cv(127)) for ch in sym.c]


# ---------------------------------------------------------------------------------------------------------
# concrete reference matcher (used in replays / double-checking solver witnesses): brute force over the AST

def concrete_seq(nodes, s, i, i0, path, dot, ci, w=False, seg_end=None):
    """Set of end positions reachable by matching `nodes` on concrete string s from i."""
    cur = {i}
    for idx, n in enumerate(nodes):
        if n[0] == 'neg':
            tail = nodes[idx + 1:]
            out = set()
            for j in cur:
                inalt = set()
                for a in n[1]:
                    inalt |= concrete_seq(a, s, j, i0, path, dot, ci, w)
                for e in concrete_run(s, j, i0, path, dot, w):
                    if e in inalt:
                        continue
                    pos = {e}
                    for t in tail:
                        pos = {p2 for p in pos for p2 in concrete_node(t, s, p, i0, path, dot, ci, w)}
                    for p in pos:
                        if seg_end is None or seg_end(p):
                            out.add(p)
            return out
        cur = {k for j in cur for k in concrete_node(n, s, j, i0, path, dot, ci, w)}
        if not cur:
            break
    return cur


def _wild_ok(s, i, i0, path, dot, w):
    if path and s[i] == '/':
        return False
    if i == i0:
        if w:
            return False
        if not dot and s[i] == '.':
            return False
    return True


def concrete_run(s, i, i0, path, dot, w):
    out = {i}
    j = i
    while j < len(s) and _wild_ok(s, j, i0, path, dot, w):
        j += 1
        out.add(j)
    return out


def concrete_node(n, s, i, i0, path, dot, ci, w):
    k = n[0]
    if k == 'lit':
        if i < len(s) and (s[i] == n[1] or (ci and s[i].isascii() and s[i].swapcase() == n[1])):
            if i == i0 and w and n[1] != '.':
                return set()
            return {i + 1}
        return set()
    if k == 'q':
        return {i + 1} if i < len(s) and _wild_ok(s, i, i0, path, dot, w) else set()
    if k == 'cls':
        if i < len(s) and _wild_ok(s, i, i0, path, dot, w):
            vs = {ord(s[i])}
            if ci:
                vs.add(swap_ascii(ord(s[i])))
            hit = any(a <= v <= b for v in vs for a, b in n[3])
            if hit != n[2]:
                return {i + 1}
        return set()
    if k == 'star':
        return concrete_run(s, i, i0, path, dot, w)
    if k == 'grp':
        def alts(j):
            r = set()
            for a in n[2]:
                r |= concrete_seq(a, s, j, i0, path, dot, ci, w)
            return r
        if n[1] == '@':
            return alts(i)
        if n[1] == '?':
            return alts(i) | {i}
        res = set()
        if n[1] == '*':
            res.add(i)
        cur = {i}
        first = True
        while cur:
            nxt = set()
            for j in cur:
                for k2 in alts(j):
                    if k2 == j:
                        if first and n[1] == '+':
                            res.add(j)
                        continue
                    nxt.add(k2)
            first = False
            nxt -= res
            res |= nxt
            cur = nxt
        return res
    raise ValueError(n)


def concrete_name_match(nodes, s, dot, ci=False):
    if not s:
        return False
    return len(s) in concrete_seq(nodes, s, 0, 0, False, dot, ci, False, seg_end=lambda p: p == len(s))

"""Spec-vs-implementation obligations shared by C01, C02, C03 (E1).

One obligation = (mode, AST, flags, domain).  The real compile() is executed, its regexes are encoded, the spec
AST is encoded over the same symbolic name, and z3 decides  must => impl  and  impl => may  for all names of the
domain up to N.  Listed known-finding regions are subtracted *inside* the query.
"""
from __future__ import annotations
import z3

from engine import e1, gen, regions, spec as S
from engine.rxsmt import SymStr, RxEnc, NotEncodable, TRUE, FALSE, AND, OR


def flags_info(mode, flags):
    m = e1.mod_of(mode)
    if mode == 'fn':
        dot = bool(flags & m.DOTMATCH)
        ci = bool(flags & m.IGNORECASE) and not bool(flags & m.CASE)
        return dict(dot=dot, ci=ci, ext=bool(flags & m.EXTMATCH), path=False, globstar=False, globstarlong=False,
                    matchbase=False, nodir=False, nodotdir=False)
    return dict(dot=bool(flags & m.DOTGLOB), ci=bool(flags & m.IGNORECASE) and not bool(flags & m.CASE),
                ext=bool(flags & m.EXTGLOB), path=True, globstar=bool(flags & m.GLOBSTAR),
                globstarlong=bool(flags & m.GLOBSTARLONG), matchbase=bool(flags & m.MATCHBASE),
                nodir=bool(flags & m.NODIR), nodotdir=bool(flags & m.NODOTDIR))


def pattern_text(mode, ast):
    return gen.render_nodes(ast) if mode == 'fn' else gen.render_path(ast)


def segments_of(mode, ast):
    return [ast] if mode == 'fn' else [it[1] for it in ast if it[0] == 'seg']


def is_exact(mode, ast):
    if mode == 'gl':
        for it in ast:
            if it[0] == 'sep' and it[1] not in ('/', '//'):
                return False
    return all(S.is_exact_segment(seg) for seg in segments_of(mode, ast))


def build_spec(sym, mode, ast, fi, relaxed, allow_abs_globstar=False, overrides=None):
    kw = dict(path=fi['path'], dot=fi['dot'], ci=fi['ci'], nodotdir=fi['nodotdir'], relaxed=relaxed)
    kw.update(overrides or {})
    sp = S.Spec(sym, **kw)
    if mode == 'fn':
        return sp.name_full(ast)
    return sp.path_full(ast, globstar=fi['globstar'], globstarlong=fi['globstarlong'], matchbase=fi['matchbase'],
                        nodir=fi['nodir'], allow_abs_globstar=allow_abs_globstar)


def obligation(item, N, live_regions):
    """item = (mode, ast, flags, domain); domain in {'visible', 'hidden', 'all'}."""
    mode, ast, flags, domain = item
    fi = flags_info(mode, flags)
    text = pattern_text(mode, ast)
    res = {'item': item, 'text': text, 'status': 'ok', 'sat': 0, 'unsat': 0, 'unknown': 0, 'solver_s': 0.0, 'regions': []}
    try:
        inc, exc = e1.real_regexes(mode, text, flags)
    except Exception as ex:  # noqa: BLE001
        res['status'] = 'compile_raises'
        res['exc'] = type(ex).__name__
        return res
    sym = SymStr('s', N, False)
    try:
        enc = RxEnc(sym)
        impl = enc.matcher(inc, exc)
    except NotEncodable as ex:
        res['status'] = 'not_encodable'
        res['exc'] = str(ex)
        return res
    exact = is_exact(mode, ast)
    res['exact'] = exact
    overrides = {}
    for key, pat_pred, kw in regions.RELAX_REGIONS:
        if key in live_regions and pat_pred(mode, ast, fi):
            res['regions'].append(key)
            overrides.update(kw)
    try:
        may = build_spec(sym, mode, ast, fi, relaxed=not exact, allow_abs_globstar=True, overrides=overrides)
        must = build_spec(sym, mode, ast, fi, relaxed=False) if exact else FALSE
        if overrides.get('empty_segments') and mode == 'gl':
            for variant in regions.nullable_segment_variants(ast):
                may = OR(may, build_spec(sym, mode, variant, fi, relaxed=True, allow_abs_globstar=True, overrides=overrides))
    except Exception as ex:  # noqa: BLE001
        res['status'] = 'spec_error'
        res['exc'] = repr(ex)
        return res
    dom = list(enc.side_constraints()) + [sym.len_ge(1)]
    if fi['ci']:
        dom += S.ascii_only(sym)
    if domain == 'visible':
        if not fi['dot']:
            dom += S.no_hidden_segments(sym, fi['path'])
        if fi['path']:
            dom += S.no_dotdir_segments(sym)
    elif domain == 'hidden':
        if fi['dot']:
            # with DOTMATCH only the . / .. segments are special (path mode)
            if not fi['path']:
                res['status'] = 'skip'
                return res
            dom.append(z3.Not(z3.And(*S.no_dotdir_segments(sym))))
        else:
            dom.append(S.some_hidden_segment(sym, fi['path']))
    # known-finding regions are subtracted inside the query
    for key, pat_pred, name_region in regions.SPEC_REGIONS:
        if key in live_regions and pat_pred(mode, ast, fi):
            res['regions'].append(key)
            reg = name_region(sym, mode, ast, fi)
            if reg is None:
                res['status'] = 'region_all'
                return res
            dom.append(z3.Not(reg))
    # grant clause of C03: a must-match is only demanded for hidden names when no wildcard stands at the dot's position
    must_q = must
    if domain == 'hidden' and must is not FALSE and not grant_applicable(mode, ast, fi):
        must_q = FALSE
    res['must_checked'] = must_q is not FALSE
    for label, f in (('missing', AND(must_q, z3.Not(impl)) if must_q is not FALSE else None),
                     ('spurious', AND(impl, z3.Not(may)))):
        if f is None:
            continue
        r, m, dt = e1.solve(dom + [f])
        res[r] += 1
        res['solver_s'] += dt
        if r == 'sat':
            res['status'] = label
            res['witness'] = sym.eval(m)
            return res
        if r != 'unsat':
            res['status'] = 'unknown'
            return res
    # reachability twin / encoder validation: an accepted and a rejected name in the domain, confirmed concretely
    for want in (True, False):
        r, m, dt = e1.solve(dom + [impl if want else z3.Not(impl)])
        res['solver_s'] += dt
        if r == 'sat':
            w = sym.eval(m)
            res['acc' if want else 'rej'] = w
            if e1.concrete_match(inc, exc, w) != want:
                res['status'] = 'encoder_mismatch'
                res['witness'] = w
                return res
        elif r != 'unsat':
            res['status'] = 'unknown'
            return res
    return res


def grant_applicable(mode, ast, fi):
    """The C03 grant clause demands the match only when no wildcard can stand at a segment start next to a written dot."""
    for seg in segments_of(mode, ast):
        kinds, _ = S.first_kinds(seg)
        if 'dot' in kinds and 'wild' in kinds:
            return False
    return True

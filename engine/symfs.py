"""E3 `symfs`: the real walkers run natively against a symbolic file system.

A *template* fixes slots (relative paths with concrete names) and candidate link targets.  Per slot the entry kind
(ABSENT/FILE/DIR/LINK) and the link target index are z3 integers, decided lazily: the stub `os` layer asks
`decide(kind[slot] == DIR)`-style questions; the executor forks only where the solver says both answers are feasible under
the path condition and the well-formedness invariants.  Exploration = DFS by re-execution with the recorded decision prefix.

Stubbed: os.scandir (str/bytes/fd), os.lstat, os.stat (incl. dir_fd=, follow_symlinks=), os.open/os.close on directories,
os.getcwd/os.chdir, os.readlink.  os.path.lexists/exists/isdir/islink, os.walk and pathlib sit unchanged on top of them.
"""
from __future__ import annotations
import errno
import os
import stat as statmod
import z3

ABSENT, FILE, DIR, LINK = 0, 1, 2, 3
KIND_NAMES = {ABSENT: 'absent', FILE: 'file', DIR: 'dir', LINK: 'link'}
ROOT = '/wcvroot'
MAXHOPS = 40


class BudgetExceeded(Exception):
    """The code under test listed more directories than the step budget allows (non-termination witness)."""


class Template:
    def __init__(self, name, slots, targets):
        """slots: relative paths (parents before children); targets: relative paths ('' = root) or None (= dangling)."""
        self.name = name
        self.slots = list(slots)
        self.targets = list(targets)
        self.children = {}
        for p in self.slots:
            par, _, nm = p.rpartition('/')
            self.children.setdefault(par, []).append((nm, p))
        # candidate paths for matching checks: every slot, plus every slot spelled through one potential link
        self.cands = list(self.slots)
        for l in self.slots:
            for t in self.targets:
                if t is None:
                    continue
                for d in self.slots:
                    if t == '' or d.startswith(t + '/'):
                        rel = d if t == '' else d[len(t) + 1:]
                        c = l + '/' + rel
                        if c not in self.cands and c.count('/') <= 4:
                            self.cands.append(c)
        self.kind = {p: z3.Int('k_' + p) for p in self.slots}
        self.tgt = {p: z3.Int('t_' + p) for p in self.slots}

    def invariants(self):
        inv = []
        for p in self.slots:
            inv += [self.kind[p] >= 0, self.kind[p] <= 3, self.tgt[p] >= 0, self.tgt[p] < max(1, len(self.targets))]
            par = p.rpartition('/')[0]
            if par:
                inv.append(z3.Implies(self.kind[p] != ABSENT, self.kind[par] == DIR))
            if not self.targets:
                inv.append(self.kind[p] != LINK)
        return inv


class Explorer:
    """Re-execution DFS over decisions."""

    def __init__(self, invariants, max_paths=200000):
        self.s = z3.Solver()
        self.s.add(*invariants)
        self.prefix = []        # [expr, value, exhausted]
        self.pos = 0
        self.paths = 0
        self.solver_calls = 0
        self.forks = 0
        self.max_paths = max_paths
        self.solver_time = 0.0

    def begin(self):
        self.pos = 0
        self.s.push()

    def end(self):
        """Finish the current path; returns False when the space is exhausted."""
        self.s.pop()
        self.paths += 1
        while self.prefix and self.prefix[-1][2]:
            self.prefix.pop()
        if not self.prefix:
            return False
        self.prefix[-1][1] = not self.prefix[-1][1]
        self.prefix[-1][2] = True
        return self.paths < self.max_paths

    def _sat(self, e):
        import time
        self.solver_calls += 1
        t = time.time()
        self.s.push()
        self.s.add(e)
        r = self.s.check()
        self.s.pop()
        self.solver_time += time.time() - t
        if r == z3.unknown:
            raise RuntimeError('solver unknown in decide()')
        return r == z3.sat

    def decide(self, expr):
        if self.pos < len(self.prefix):
            _e, v, _x = self.prefix[self.pos]
            self.pos += 1
            self.s.add(expr if v else z3.Not(expr))
            return v
        t = self._sat(expr)
        f = self._sat(z3.Not(expr)) if t else True
        if t and f:
            self.forks += 1
            self.prefix.append([expr, True, False])
            v = True
        else:
            v = t
            self.prefix.append([expr, v, True])
        self.pos += 1
        self.s.add(expr if v else z3.Not(expr))
        return v

    def model(self):
        assert self.s.check() == z3.sat
        return self.s.model()


class SymFS:
    """One run's view of the symbolic tree (decisions memoised per run)."""

    def __init__(self, tpl: Template, ex: Explorer, budget=None):
        self.t = tpl
        self.ex = ex
        self.kmemo = {}
        self.tmemo = {}
        self.cwd = '/'            # NOT the tree root: a path wrongly resolved against the working directory instead of root_dir must show
        self.fds = {}
        self.next_fd = 1000
        self.scans = []            # (resolved dir slot path, path as given)
        self.budget = budget or 60 * max(1, len(tpl.slots))

    # --- decisions ---------------------------------------------------------------------------------------
    def kind(self, slot):
        v = self.kmemo.get(slot)
        if v is None:
            kv = self.t.kind[slot]
            for cand in (ABSENT, FILE, DIR):
                if self.ex.decide(kv == cand):
                    v = cand
                    break
            else:
                v = LINK
            self.kmemo[slot] = v
        return v

    def target(self, slot):
        v = self.tmemo.get(slot, -1)
        if v == -1:
            tv = self.t.tgt[slot]
            n = len(self.t.targets)
            idx = n - 1
            for i in range(n - 1):
                if self.ex.decide(tv == i):
                    idx = i
                    break
            v = self.t.targets[idx]
            self.tmemo[slot] = v
        return v

    # --- path resolution ---------------------------------------------------------------------------------
    def _split(self, path):
        """-> list of components relative to ROOT, or raises ENOENT for paths outside the mounted template."""
        if isinstance(path, bytes):
            path = os.fsdecode(path)
        path = os.fspath(path)
        if not path:
            raise FileNotFoundError(errno.ENOENT, 'empty path')
        if not path.startswith('/'):
            path = self.cwd + '/' + path
        comps = [c for c in path.split('/') if c and c != '.']
        return comps, path.endswith('/') or path.endswith('/.')

    def resolve(self, path, follow_last=True, hops=None):
        """-> (kind, slot) where slot is the canonical relative path ('' = template root); kind of the root is DIR.
        Raises OSError like the kernel would."""
        hops = hops if hops is not None else [0]
        comps, trailing = self._split(path)
        rootc = ROOT.strip('/').split('/')
        # walk from the real '/' : only the chain to ROOT exists there
        cur = None          # None = above/at ancestors of ROOT, tracked by `above`
        above = []
        i = 0
        n = len(comps)
        stack_kind = DIR
        while i < n:
            c = comps[i]
            last = i == n - 1
            if cur is None:
                if c == '..':
                    if above:
                        above.pop()
                    i += 1
                    continue
                above.append(c)
                if above == rootc:
                    cur = ''
                    above = []
                elif above != rootc[:len(above)]:
                    raise FileNotFoundError(errno.ENOENT, path)
                i += 1
                continue
            if c == '..':
                if cur == '':
                    cur = None
                    above = rootc[:-1]
                else:
                    cur = cur.rpartition('/')[0]
                i += 1
                continue
            nxt = c if cur == '' else cur + '/' + c
            if nxt not in self.t.kind:
                raise FileNotFoundError(errno.ENOENT, path)
            k = self.kind(nxt)
            if k == ABSENT:
                raise FileNotFoundError(errno.ENOENT, path)
            if k == LINK and (not last or follow_last or trailing):
                hops[0] += 1
                if hops[0] > MAXHOPS:
                    raise OSError(errno.ELOOP, 'Too many levels of symbolic links', path)
                tg = self.target(nxt)
                if tg is None:
                    raise FileNotFoundError(errno.ENOENT, path)
                tk, tslot = self.resolve(ROOT + ('/' + tg if tg else ''), True, hops)
                if last:
                    if trailing and tk != DIR:
                        raise NotADirectoryError(errno.ENOTDIR, path)
                    return tk, tslot
                if tk != DIR:
                    raise NotADirectoryError(errno.ENOTDIR, path)
                cur = tslot
            elif last:
                if trailing and k != DIR:
                    raise NotADirectoryError(errno.ENOTDIR, path)
                return k, nxt
            elif k != DIR:
                raise NotADirectoryError(errno.ENOTDIR, path)
            else:
                cur = nxt
            i += 1
        if cur is None:
            return DIR, None          # an ancestor of ROOT (or '/')
        return stack_kind, cur

    # --- os stubs ----------------------------------------------------------------------------------------
    def _st(self, kind):
        mode = {FILE: statmod.S_IFREG | 0o644, DIR: statmod.S_IFDIR | 0o755, LINK: statmod.S_IFLNK | 0o777}[kind]
        return os.stat_result((mode, 1, 1, 1, 0, 0, 0, 0, 0, 0))

    def _base(self, path, dir_fd):
        if dir_fd is not None:
            p = os.fsdecode(os.fspath(path))
            if not p.startswith('/'):
                base = self.fds.get(dir_fd)
                if base is None:
                    raise OSError(errno.EBADF, 'bad dir_fd')
                return base + '/' + p
        return path

    def stat(self, path, *, dir_fd=None, follow_symlinks=True):
        if isinstance(path, int):
            base = self.fds.get(path)
            if base is None:
                raise OSError(errno.EBADF, 'bad fd')
            return self._st(DIR)
        k, _slot = self.resolve(self._base(path, dir_fd), follow_symlinks)
        return self._st(k)

    def lstat(self, path, *, dir_fd=None):
        return self.stat(path, dir_fd=dir_fd, follow_symlinks=False)

    def readlink(self, path, *, dir_fd=None):
        k, slot = self.resolve(self._base(path, dir_fd), False)
        if k != LINK:
            raise OSError(errno.EINVAL, 'not a link')
        tg = self.target(slot)
        return ROOT + '/' + tg if tg else (ROOT if tg == '' else ROOT + '/__dangling__')

    def open(self, path, flags, mode=0o777, *, dir_fd=None):
        if flags & getattr(os, 'O_NOFOLLOW', 0):
            # O_NOFOLLOW: the final component must not be a symbolic link (ELOOP), whatever it points to
            k0, _ = self.resolve(self._base(path, dir_fd), False)
            if k0 == LINK:
                raise OSError(errno.ELOOP, 'Too many levels of symbolic links', os.fspath(path))
        k, slot = self.resolve(self._base(path, dir_fd), True)
        if k != DIR:
            raise NotADirectoryError(errno.ENOTDIR, os.fspath(path))
        fd = self.next_fd
        self.next_fd += 1
        self.fds[fd] = ROOT + ('/' + slot if slot else '') if slot is not None else '/'
        return fd

    def close(self, fd):
        if fd in self.fds:
            del self.fds[fd]
        else:
            raise OSError(errno.EBADF, 'bad fd')

    def getcwd(self):
        return self.cwd

    def getcwdb(self):
        return os.fsencode(self.cwd)

    def chdir(self, path):
        k, slot = self.resolve(path, True)
        if k != DIR:
            raise NotADirectoryError(errno.ENOTDIR, os.fspath(path))
        self.cwd = ROOT + ('/' + slot if slot else '') if slot is not None else '/'

    def scandir(self, path='.'):
        as_bytes = isinstance(path, bytes)
        if isinstance(path, int):
            base = self.fds.get(path)
            if base is None:
                raise OSError(errno.EBADF, 'bad fd')
            shown = None
            k, slot = self.resolve(base, True)
        else:
            shown = os.fsdecode(os.fspath(path))
            k, slot = self.resolve(path, True)
        if k != DIR:
            raise NotADirectoryError(errno.ENOTDIR, str(path))
        self.scans.append((slot, shown))
        if len(self.scans) > self.budget:
            raise BudgetExceeded(f'{len(self.scans)} directory listings')
        out = []
        if slot is None:
            # the real root directory: shows the mount point only
            nm = ROOT.strip('/')
            return _Scan([_Entry(self, nm, os.path.join(shown, nm) if shown is not None else nm, '', DIR, as_bytes)])
        for nm, child in self.t.children.get(slot, []):
            ck = self.kind(child)
            if ck != ABSENT:
                full = (shown.rstrip('/') + '/' + nm) if shown is not None else nm
                out.append(_Entry(self, nm, full, child, ck, as_bytes))
        return _Scan(out)

    # --- helpers for oracles / monitors (same decisions, same path condition) ---------------------------------
    def lkind(self, rel):
        """Kind of the entry itself (no following), ABSENT if missing/unresolvable."""
        try:
            return self.resolve(ROOT + '/' + rel if rel else ROOT, False)[0]
        except OSError:
            return ABSENT

    def skind(self, rel):
        try:
            return self.resolve(ROOT + '/' + rel if rel else ROOT, True)[0]
        except OSError:
            return ABSENT

    def listdir(self, rel):
        try:
            k, slot = self.resolve(ROOT + '/' + rel if rel else ROOT, True)
        except OSError:
            return None
        if k != DIR:
            return None
        return [nm for nm, child in self.t.children.get(slot, []) if self.kind(child) != ABSENT]

    def describe(self):
        """Concrete tree of this run (decided slots; undecided ones are absent)."""
        ents = []
        for p in self.t.slots:
            k = self.kmemo.get(p)
            if k in (None, ABSENT):
                continue
            par = p.rpartition('/')[0]
            if par and self.kmemo.get(par) != DIR:
                continue
            if k == LINK:
                tg = self.tmemo.get(p, -1)
                if tg == -1:
                    tg = self.t.targets[0] if self.t.targets else None
                depth = p.count('/')
                if tg is None:
                    real = '__dangling__'
                else:
                    real = ('../' * depth) + tg if tg else ('../' * depth or '.')
                    real = real.rstrip('/') if real not in ('.',) else real
                ents.append([p, 'link', real or '.'])
            else:
                ents.append([p, KIND_NAMES[k]])
        return {'entries': ents}


class _Entry:
    def __init__(self, fs, name, path, slot, kind, as_bytes):
        self._fs = fs
        self._slot = slot
        self._kind = kind
        self.name = os.fsencode(name) if as_bytes else name
        self.path = os.fsencode(path) if as_bytes else path

    def is_symlink(self):
        return self._kind == LINK

    def _followed(self):
        if self._kind != LINK:
            return self._kind
        return self._fs.skind(self._slot)

    def is_dir(self, *, follow_symlinks=True):
        return (self._followed() if follow_symlinks else self._kind) == DIR

    def is_file(self, *, follow_symlinks=True):
        return (self._followed() if follow_symlinks else self._kind) == FILE

    def stat(self, *, follow_symlinks=True):
        k = self._followed() if follow_symlinks else self._kind
        if k == ABSENT:
            raise FileNotFoundError(errno.ENOENT, self._slot)
        return self._fs._st(k)

    def inode(self):
        return 1

    def __fspath__(self):
        return self.path


class _Scan:
    def __init__(self, entries):
        self._it = iter(entries)

    def __iter__(self):
        return self

    def __next__(self):
        return next(self._it)

    def __enter__(self):
        return self

    def __exit__(self, *a):
        return False

    def close(self):
        pass


_PATCH = ('scandir', 'stat', 'lstat', 'open', 'close', 'getcwd', 'getcwdb', 'chdir', 'readlink')


class patched:
    """Context manager installing the stub layer into the `os` module."""

    def __init__(self, fs: SymFS):
        self.fs = fs

    def __enter__(self):
        self.saved = {n: getattr(os, n) for n in _PATCH}
        for n in _PATCH:
            setattr(os, n, getattr(self.fs, n))
        return self.fs

    def __exit__(self, *a):
        for n, f in self.saved.items():
            setattr(os, n, f)
        return False


def explore(tpl: Template, run, max_paths=200000, budget=None):
    """Run `run(fs)` on every feasible decision path.  Yields (fs, result) per path; result may be an exception object."""
    ex = Explorer(tpl.invariants(), max_paths)
    more = True
    while more:
        ex.begin()
        fs = SymFS(tpl, ex, budget)
        try:
            with patched(fs):
                res = run(fs)
        except BudgetExceeded as e:
            res = e
        yield fs, res
        more = ex.end()
    explore.last = ex


# ---------------------------------------------------------------------------------------------------------
# templates

def templates():
    """Tiny templates (each a few hundred to ~2000 well-formed trees): structure is symbolic, names are concrete."""
    T = {}

    def add(name, slots, targets=()):
        T[name] = Template(name, slots, list(targets))
    add('flat', ['a', 'b', '.h', 'f'])
    add('nest', ['a', 'a/x', 'a/d', 'a/d/x', 'b'])
    add('link1', ['a', 'a/x', 'L'], ['a', 'a/x', None, ''])
    add('link2', ['a', 'a/L', 'a/x', 'f'], ['', 'a', 'f', None])
    add('hid', ['.d', '.d/x', 'L', 'a'], ['.d', None])
    add('hid2', ['a', 'a/.y', 'a/.d', 'a/.d/x', '.h'])
    add('case', ['a', 'A', 'Up', 'a/x'])
    add('deep', ['a', 'a/b', 'a/b/c', 'a/b/c/x', 'a/b/up', 'a/x'], ['', 'a', 'a/b', 'a/x'])
    add('same', ['d', 'd/d', 'd/d/d', 'd/f', 'd/d/f', 'f'])
    add('sib', ['a', 'b', 'a/x', 'b/x', 'a/L'], ['b', 'b/x', None])
    add('dotlink', ['a', 'a/x', '.L', 'a/.L2'], ['a', '', None])
    add('twostar', ['r', 'r/c', 'r/c/x', 'r/c/x/y', 'L'], ['r', 'r/c', None])
    add('linkfile', ['d', 'd/f', 'd/lf', 'lf', 'ld'], ['d/f', 'd', None])
    add('nonascii', ['caf\xe9', 'caf\xe9/x', 'b', 'b/\xfcx'])
    add('meta', ['a\\b', 'a*b', '[x]', 'a', 'a/b', 'a/!y'])
    add('casedirs', ['Data', 'data', 'DATA', 'Data/s1', 'data/s2'])
    add('dirsonly', ['p', 'p/q', 'p/q/f', 'p/r', 'g'])
    return T

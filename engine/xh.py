"""E2: run CrossHair conditions of a harness file in parallel, one background process per condition."""
from __future__ import annotations
import ast
import os
import re
import subprocess
import sys
import time
from concurrent.futures import ThreadPoolExecutor

from engine.common import VERIF, REPO


def conditions(path):
    """[(function name, line inside the def)] for every top-level function whose docstring has a `post:` line."""
    tree = ast.parse(open(path).read())
    out = []
    for node in tree.body:
        if isinstance(node, ast.FunctionDef):
            doc = ast.get_docstring(node) or ''
            if 'post:' in doc:
                out.append((node.name, node.body[0].lineno))
    return out


def run_condition(path, name, line, timeout):
    env = dict(os.environ)
    env['PYTHONPATH'] = REPO + os.pathsep + VERIF
    env['PYTHONDONTWRITEBYTECODE'] = '1'
    t = time.time()
    try:
        p = subprocess.run([sys.executable, '-m', 'crosshair', 'check', '--report_all', '--per_condition_timeout', str(timeout),
                            f'{path}:{line}'], cwd=os.path.dirname(path), env=env, capture_output=True, text=True, timeout=timeout + 60)
        out = (p.stdout + p.stderr).strip()
    except subprocess.TimeoutExpired:
        out = 'TIMEOUT'
    dt = time.time() - t
    verdict = 'inconclusive'
    call = None
    if 'Confirmed over all paths' in out:
        verdict = 'confirmed'
    else:
        m = re.search(r'error: (.*)', out)
        if m:
            verdict = 'counterexample'
            mm = re.search(r'when calling (\w+\(.*?\))(?: \(which|$)', m.group(1))
            call = mm.group(1) if mm else None
    return {'name': name, 'verdict': verdict, 'call': call, 'output': out[-600:], 'time_s': round(dt, 1)}


def run_all(path, timeout, workers, only=None):
    conds = [c for c in conditions(path) if only is None or only(c[0])]
    with ThreadPoolExecutor(max_workers=workers) as ex:
        futs = [ex.submit(run_condition, path, n, l, timeout) for n, l in conds]
        return [f.result() for f in futs]


def eval_call(harness_path, call):
    """Evaluate `fn(1, 2, ...)` of a harness module in a plain interpreter (no CrossHair)."""
    import importlib.util
    name = os.path.splitext(os.path.basename(harness_path))[0]
    spec = importlib.util.spec_from_file_location(name, harness_path)
    mod = importlib.util.module_from_spec(spec)
    sys.modules[name] = mod
    spec.loader.exec_module(mod)
    tree = ast.parse(call, mode='eval').body
    fn = getattr(mod, tree.func.id)
    args = [ast.literal_eval(a) for a in tree.args]
    return tree.func.id, args, fn(*args)

"""E2 (CrossHair) harness for C07: the include-any / exclude-none evaluation of the real _Match.match / WcRegexp.match / filter.

Stub pattern objects whose fullmatch() results are SYMBOLIC booleans (3 includes, 3 excludes), symbolic emptiness of the name,
symbolic numbers of includes/excludes in use.  The real wrappers must return: name non-empty AND any(include) AND NOT any(exclude).
"""
from __future__ import annotations
from wcmatch import _wcmatch as M


class _P:
    """Stands for a compiled regex; records how often it was consulted."""

    def __init__(self, verdict: bool):
        self.verdict = verdict
        self.pattern = 'stub'
        self.calls = 0

    def fullmatch(self, s):
        self.calls += 1
        return object() if self.verdict else None


def law(i1: bool, i2: bool, i3: bool, e1: bool, e2: bool, e3: bool, ni: int, ne: int, empty: bool, exclude_none: bool) -> bool:
    """
    pre: 0 <= ni <= 3 and 0 <= ne <= 3
    post: _
    """
    inc = [_P(i1), _P(i2), _P(i3)][:ni]
    exc = [_P(e1), _P(e2), _P(e3)][:ne]
    name = '' if empty else 'name'
    want = (not empty) and any(p.verdict for p in inc) and not any(p.verdict for p in exc)
    excl = None if (exclude_none and ne == 0) else tuple(exc)
    rx = M.WcRegexp(tuple(inc), excl, False, False, False)
    got = rx.match(name)
    got2 = M._Match(name, tuple(inc), excl, False, False, False).match() if not empty else False
    names = ['other'] if empty else [name, 'other']        # empty names are outside the properties (filter does not special-case them)
    flt = rx.filter(names)
    want_other = any(p.verdict for p in inc) and not any(p.verdict for p in exc)
    want_flt = names if want_other else []
    return got == want and got2 == want and flt == want_flt and len(rx) == ni + ne


def twin(i1: bool, i2: bool, i3: bool, e1: bool, e2: bool, e3: bool, ni: int, ne: int, empty: bool, exclude_none: bool) -> bool:
    """
    Reachability twin: must be refuted.
    pre: 0 <= ni <= 3 and 0 <= ne <= 3
    post: not _
    """
    return law(i1, i2, i3, e1, e2, e3, ni, ne, empty, exclude_none)

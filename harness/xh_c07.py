"""E2 (CrossHair) harness for C07: the include-any / exclude-none evaluation of the real _Match.match / WcRegexp.match / filter.

Stub pattern objects whose fullmatch() results are SYMBOLIC booleans (3 includes, 3 excludes), symbolic emptiness of the name,
symbolic numbers of includes/excludes in use.  The real wrappers must return: name non-empty AND any(include) AND NOT any(exclude).
"""
from __future__ import annotations
from wcmatch import _wcmatch as M


class _P:
    """Stands for a compiled regex; records how often it was consulted."""

    def __init__(self, verdict: bool):
        self.verdict = verdict
        self.pattern = 'stub'
        self.calls = 0

    def fullmatch(self, s):
        self.calls += 1
        return object() if self.verdict else None

    # which regex method the wrapper uses is decided by the encoder (E1, spy objects); the evaluation law holds for any of them
    match = search = fullmatch


def law(i1: bool, i2: bool, i3: bool, e1: bool, e2: bool, e3: bool, ni: int, ne: int, empty: bool, exclude_none: bool) -> bool:
    """
    pre: 0 <= ni <= 3 and 0 <= ne <= 3
    post: _
    """
    inc = [_P(i1), _P(i2), _P(i3)][:ni]
    exc = [_P(e1), _P(e2), _P(e3)][:ne]
    name = '' if empty else 'name'
    want = (not empty) and any(p.verdict for p in inc) and not any(p.verdict for p in exc)
    excl = None if (exclude_none and ne == 0) else tuple(exc)
    rx = M.WcRegexp(tuple(inc), excl, False, False, False)
    got = rx.match(name)
    got2 = M._Match(name, tuple(inc), excl, False, False, False).match() if not empty else False
    names = ['other'] if empty else [name, 'other']        # empty names are outside the properties (filter does not special-case them)
    flt = rx.filter(names)
    want_other = any(p.verdict for p in inc) and not any(p.verdict for p in exc)
    want_flt = names if want_other else []
    return got == want and got2 == want and flt == want_flt and len(rx) == ni + ne


def twin(i1: bool, i2: bool, i3: bool, e1: bool, e2: bool, e3: bool, ni: int, ne: int, empty: bool, exclude_none: bool) -> bool:
    """
    Reachability twin: must be refuted.
    pre: 0 <= ni <= 3 and 0 <= ne <= 3
    post: not _
    """
    return law(i1, i2, i3, e1, e2, e3, ni, ne, empty, exclude_none)


# ---- the file-system evaluation (_match_real): every inclusion and every exclusion sees the same, normalised name ----------------

import os as _os

_ROOT = _os.path.dirname(_os.path.dirname(_os.path.abspath(__file__)))          # /verif: 'harness' is a directory, 'check' a file
_NAMES = ['harness', 'harness/', 'check', 'no-such-entry']


class _M:
    def groups(self):
        return ()


class _PR:
    """Stands for a compiled regex whose verdict depends (only) on whether the name it is shown carries a trailing separator."""

    def __init__(self, with_sep: bool, without_sep: bool):
        self.with_sep = with_sep
        self.without_sep = without_sep
        self.pattern = 'stub'

    def fullmatch(self, s):
        v = self.with_sep if s.endswith('/') else self.without_sep
        return _M() if v else None

    match = search = fullmatch

    def verdict(self, shown):
        return self.with_sep if shown.endswith('/') else self.without_sep


def law_real(is1: bool, in1: bool, is2: bool, in2: bool, es1: bool, en1: bool, es2: bool, en2: bool, ni: int, ne: int, which: int, follow: bool) -> bool:
    """
    pre: 1 <= ni <= 2 and 0 <= ne <= 2 and 0 <= which <= 3
    post: _
    """
    inc = [_PR(is1, in1), _PR(is2, in2)][:ni]
    exc = [_PR(es1, en1), _PR(es2, en2)][:ne]
    name = _NAMES[which]
    if which == 3:
        want = False                                   # REALPATH: a name that does not exist never matches
    else:
        shown = 'harness/' if which in (0, 1) else name        # a directory is matched with its trailing separator, spelled or not
        want = any(p.verdict(shown) for p in inc) and not any(p.verdict(shown) for p in exc)
    got = M._Match(name, tuple(inc), tuple(exc) if exc else None, True, True, follow).match(root_dir=_ROOT)
    return got == want


def twin_real(is1: bool, in1: bool, is2: bool, in2: bool, es1: bool, en1: bool, es2: bool, en2: bool, ni: int, ne: int, which: int, follow: bool) -> bool:
    """
    Reachability twin: must be refuted.
    pre: 1 <= ni <= 2 and 0 <= ne <= 2 and 0 <= which <= 3
    post: not _
    """
    return law_real(is1, in1, is2, in2, es1, en1, es2, en2, ni, ne, which, follow)

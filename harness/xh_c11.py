"""E2 (CrossHair) harness for C11: the pattern-limit law of the real expansion loops.

The real `_wcparse.compile_pattern`, `_wcparse.translate` and `glob.Glob.__init__` run with `_wcparse.expand`
replaced by a generator that obeys bracex's contract (lazy; raises ExpansionLimitException once more than `limit > 0`
items are requested) and is driven by SYMBOLIC expansion counts; the regex compilers are stubbed to constants (the
law does not depend on them).  Symbolic: L, n1, n2, n3 (inclusion expansions), e1, e2 (exclusion expansions), dup
(second inclusion pattern repeats the first one's expansions), inline (exclusions given inline with NEGATE instead of
exclude=).  Strings are concrete; symbolic ints are only compared/added.

Postcondition (three zones, the middle one free):
  L > 0 and unique-total > L            => PatternLimitException
  L == 0 or total (duplicates incl.) <= L => no exception
  items pulled from the stub <= L + number of patterns + 1     (L > 0)
"""
from __future__ import annotations
import bracex
from wcmatch import _wcparse as wp
from wcmatch import glob as G

NAMES = {
    'a': ['a0', 'a1', 'a2', 'a3', 'a4'],
    'b': ['b0', 'b1', 'b2', 'b3', 'b4'],
    'c': ['c0', 'c1', 'c2', 'c3', 'c4'],
    'x': ['x0', 'x1', 'x2', 'x3', 'x4'],
    'y': ['y0', 'y1', 'y2', 'y3', 'y4'],
    '!x': ['!x0', '!x1', '!x2', '!x3', '!x4'],
    '!y': ['!y0', '!y1', '!y2', '!y3', '!y4'],
}


class _Rx:
    def __init__(self, p):
        self.pattern = p


class _Split:
    def __init__(self, p, flags):
        self.p = p

    def split(self):
        return []


def _law(entry: str, L: int, n1: int, n2: int, n3: int, e1: int, e2: int, dup: bool, inline: bool, L0: int = 0) -> bool:
    counts = {'a': n1, 'b': n2, 'c': n3, 'x': e1, 'y': e2, '!x': e1, '!y': e2}
    pulled = [0]
    bad_limit = [False]

    def fake_expand(pattern, flags, limit):
        # the budget handed to bracex bounds its work: it must be a positive number <= L (or exactly 0 when L == 0)
        if L > 0:
            if limit < 1 or limit > L:
                bad_limit[0] = True
        elif limit != 0:
            bad_limit[0] = True
        n = counts[pattern]
        names = NAMES['a'] if (dup and pattern == 'b') else NAMES[pattern]
        k = 0
        while k < n:
            if 0 < limit <= k:
                raise bracex.ExpansionLimitException('stub: limit reached')
            pulled[0] += 1
            yield names[k]
            k += 1

    orig = (wp.expand, wp._compile, G._GlobSplit, wp.WcParse)

    class _Parse:
        def __init__(self, p, flags=0):
            self.p = p

        def parse(self):
            return self.p

    wp.expand = fake_expand
    wp._compile = lambda p, f: _Rx(p)
    wp.WcParse = _Parse
    G._GlobSplit = _Split
    try:
        incl = ['a', 'b', 'c']
        if inline:
            pats = incl + ['!x', '!y']
            excl = None
            flags = wp.NEGATE
        else:
            pats = incl
            excl = ['x', 'y']
            flags = 0
        npat = 5
        raised = False
        if entry == 'history':
            try:
                wp.compile(pats, flags, L0, excl)
            except wp.PatternLimitException:
                pass
            pulled[0] = 0
            bad_limit[0] = False
        try:
            if entry == 'history':
                wp.compile(pats, flags, L, excl)
            elif entry == 'compile':
                wp.compile_pattern(pats, flags, L, excl)
            elif entry == 'translate':
                wp.translate(pats, flags, L, excl)
            else:
                G.Glob(pats, flags=flags, limit=L, exclude=excl)
        except wp.PatternLimitException:
            raised = True
        total = n1 + n2 + n3 + e1 + e2
        if dup:
            uniq = (n1 if n1 > n2 else n2) + n3 + e1 + e2
        else:
            uniq = total
        if L > 0:
            if uniq > L and not raised:
                return False
            if total <= L and raised:
                return False
            if pulled[0] > L + npat + 1:
                return False
        elif raised:
            return False
        if bad_limit[0]:
            return False
        return True
    finally:
        wp.expand, wp._compile, G._GlobSplit, wp.WcParse = orig



def law_compile_ux(L: int, n1: int, n2: int, n3: int, e1: int, e2: int) -> bool:
    """
    pre: 0 <= L <= 5 and 1 <= n1 <= 3 and 0 <= n2 <= 3 and 0 <= n3 <= 1 and 0 <= e1 <= 2 and 0 <= e2 <= 2
    post: _
    """
    return _law('compile', L, n1, n2, n3, e1, e2, False, False)


def law_compile_ui(L: int, n1: int, n2: int, n3: int, e1: int, e2: int) -> bool:
    """
    pre: 0 <= L <= 5 and 1 <= n1 <= 3 and 0 <= n2 <= 3 and 0 <= n3 <= 1 and 0 <= e1 <= 2 and 0 <= e2 <= 2
    post: _
    """
    return _law('compile', L, n1, n2, n3, e1, e2, False, True)


def law_compile_dx(L: int, n1: int, n2: int, n3: int, e1: int, e2: int) -> bool:
    """
    pre: 0 <= L <= 5 and 1 <= n1 <= 3 and 0 <= n2 <= 3 and 0 <= n3 <= 1 and 0 <= e1 <= 2 and 0 <= e2 <= 2
    post: _
    """
    return _law('compile', L, n1, n2, n3, e1, e2, True, False)


def law_compile_di(L: int, n1: int, n2: int, n3: int, e1: int, e2: int) -> bool:
    """
    pre: 0 <= L <= 5 and 1 <= n1 <= 3 and 0 <= n2 <= 3 and 0 <= n3 <= 1 and 0 <= e1 <= 2 and 0 <= e2 <= 2
    post: _
    """
    return _law('compile', L, n1, n2, n3, e1, e2, True, True)


def law_translate_ux(L: int, n1: int, n2: int, n3: int, e1: int, e2: int) -> bool:
    """
    pre: 0 <= L <= 5 and 1 <= n1 <= 3 and 0 <= n2 <= 3 and 0 <= n3 <= 1 and 0 <= e1 <= 2 and 0 <= e2 <= 2
    post: _
    """
    return _law('translate', L, n1, n2, n3, e1, e2, False, False)


def law_translate_ui(L: int, n1: int, n2: int, n3: int, e1: int, e2: int) -> bool:
    """
    pre: 0 <= L <= 5 and 1 <= n1 <= 3 and 0 <= n2 <= 3 and 0 <= n3 <= 1 and 0 <= e1 <= 2 and 0 <= e2 <= 2
    post: _
    """
    return _law('translate', L, n1, n2, n3, e1, e2, False, True)


def law_translate_dx(L: int, n1: int, n2: int, n3: int, e1: int, e2: int) -> bool:
    """
    pre: 0 <= L <= 5 and 1 <= n1 <= 3 and 0 <= n2 <= 3 and 0 <= n3 <= 1 and 0 <= e1 <= 2 and 0 <= e2 <= 2
    post: _
    """
    return _law('translate', L, n1, n2, n3, e1, e2, True, False)


def law_translate_di(L: int, n1: int, n2: int, n3: int, e1: int, e2: int) -> bool:
    """
    pre: 0 <= L <= 5 and 1 <= n1 <= 3 and 0 <= n2 <= 3 and 0 <= n3 <= 1 and 0 <= e1 <= 2 and 0 <= e2 <= 2
    post: _
    """
    return _law('translate', L, n1, n2, n3, e1, e2, True, True)


def law_glob_ux(L: int, n1: int, n2: int, n3: int, e1: int, e2: int) -> bool:
    """
    pre: 0 <= L <= 5 and 1 <= n1 <= 3 and 0 <= n2 <= 3 and 0 <= n3 <= 1 and 0 <= e1 <= 2 and 0 <= e2 <= 2
    post: _
    """
    return _law('glob', L, n1, n2, n3, e1, e2, False, False)


def law_glob_ui(L: int, n1: int, n2: int, n3: int, e1: int, e2: int) -> bool:
    """
    pre: 0 <= L <= 5 and 1 <= n1 <= 3 and 0 <= n2 <= 3 and 0 <= n3 <= 1 and 0 <= e1 <= 2 and 0 <= e2 <= 2
    post: _
    """
    return _law('glob', L, n1, n2, n3, e1, e2, False, True)


def law_glob_dx(L: int, n1: int, n2: int, n3: int, e1: int, e2: int) -> bool:
    """
    pre: 0 <= L <= 5 and 1 <= n1 <= 3 and 0 <= n2 <= 3 and 0 <= n3 <= 1 and 0 <= e1 <= 2 and 0 <= e2 <= 2
    post: _
    """
    return _law('glob', L, n1, n2, n3, e1, e2, True, False)


def law_glob_di(L: int, n1: int, n2: int, n3: int, e1: int, e2: int) -> bool:
    """
    pre: 0 <= L <= 5 and 1 <= n1 <= 3 and 0 <= n2 <= 3 and 0 <= n3 <= 1 and 0 <= e1 <= 2 and 0 <= e2 <= 2
    post: _
    """
    return _law('glob', L, n1, n2, n3, e1, e2, True, True)


def law_history_ux(L0: int, L: int, n1: int, n2: int, e1: int) -> bool:
    """
    The same call after an earlier call with another limit (caches must not carry a verdict across limits).
    pre: (L0 == 0 or L0 == 5) and 0 <= L <= 4 and 1 <= n1 <= 3 and 0 <= n2 <= 2 and 0 <= e1 <= 1
    post: _
    """
    return _law('history', L, n1, n2, 0, e1, 0, False, False, L0)


def law_history_di(L0: int, L: int, n1: int, n2: int, e1: int) -> bool:
    """
    pre: (L0 == 0 or L0 == 5) and 0 <= L <= 4 and 1 <= n1 <= 3 and 0 <= n2 <= 2 and 0 <= e1 <= 1
    post: _
    """
    return _law('history', L, n1, n2, 0, e1, 0, True, True, L0)


def twin_compile(L: int, n1: int, n2: int, n3: int, e1: int, e2: int) -> bool:
    """
    Reachability twin: this postcondition must be refuted (the harness reaches its end and returns True).
    pre: 0 <= L <= 5 and 1 <= n1 <= 3 and 0 <= n2 <= 3 and 0 <= n3 <= 1 and 0 <= e1 <= 2 and 0 <= e2 <= 2
    post: not _
    """
    return _law('compile', L, n1, n2, n3, e1, e2, True, False)

"""E2 (CrossHair) harness for C15: kill / reset / re-run laws of the real WcMatch walker.

A WcMatch subclass records every hook call; SYMBOLIC integers choose the hook invocation at which kill() is called (k), the
is_aborted() poll before which the abort flag flips (j: a kill from another thread is observationally a flip between two
polls, because _abort is only read through is_aborted() and written atomically), and the hook invocation that raises (e).
The tree is real (created at import under a scratch directory, removed at exit); strings are concrete.
"""
from __future__ import annotations
import atexit
import os
import shutil
import tempfile

from wcmatch import wcmatch as W

ROOT = tempfile.mkdtemp(prefix='wcverif_c15_', dir=os.environ.get('WCVERIF_SCRATCH') or None)
atexit.register(shutil.rmtree, ROOT, True)
for rel in ('a.txt', 'b.log', 'c.txt', '.h.txt', 'sub/d.txt', 'sub/e.log', 'sub/f.txt', 'sub2/g.txt', 'sub2/deep/i.log', 'sub2/deep/j.txt',
            'only/dirs/k.txt', 'only/more/l.log'):            # `only` holds nothing but folders
    p = os.path.join(ROOT, rel)
    os.makedirs(os.path.dirname(p), exist_ok=True)
    open(p, 'w').close()
FLAGS = W.RECURSIVE | W.HIDDEN


class Boom(Exception):
    pass


class K(W.WcMatch):
    def on_init(self, k=-1, j=-1, e=-1):
        self.k, self.j, self.e = k, j, e
        self.n = 0
        self.polls = 0
        self.log = []          # (hook, name) in call order
        self.resets = 0
        self.kill_at = None    # (hook, name) where kill() was issued
        self.after_kill = []   # hook calls after the kill
        self.after_kill_bases = []
        self.kill_base = None

    def _tick(self, hook, name, base=None):
        if self.kill_at is not None:
            self.after_kill.append((hook, name))
            self.after_kill_bases.append(base)
        self.log.append((hook, name))
        here = self.n
        self.n += 1
        if here == self.k:
            self.kill()
            self.kill_at = (hook, name)
            self.kill_base = base
        if here == self.e:
            raise Boom(name)

    def on_reset(self):
        self.resets += 1
        self.n = 0
        self.polls = 0
        self.log = []
        self.kill_at = None
        self.after_kill = []
        self.after_kill_bases = []
        self.kill_base = None

    def on_validate_directory(self, base, name):
        self._tick('vd', name, base)
        return True

    def on_validate_file(self, base, name):
        self._tick('vf', name, base)
        return name != 'c.txt'            # one matching file is vetoed by the hook (-> skipped)

    def on_match(self, base, name):
        self._tick('m', name, base)
        return ('m', name)

    def on_skip(self, base, name):
        self._tick('s', name, base)
        return ('s', name) if name.startswith('e') else None     # most skips return nothing (nothing is yielded for them)

    def on_error(self, base, name):
        self._tick('err', name, base)
        return ('err', name)

    def is_aborted(self):
        if self.polls == self.j:
            self._abort = True
        self.polls += 1
        return self._abort


_full = K(ROOT, '*.txt', None, FLAGS)
FULL = _full.match()
FULL_LOG = list(_full.log)
FULL_SKIPPED = _full.get_skipped()
NHOOKS = len(FULL_LOG)


def _files_of(log):
    return [name for hook, name in log if hook in ('m', 's')]


def _routing_ok(w, raised_name=None):
    """Every visited file goes to exactly one of on_match / on_skip; a file whose hook raised goes to on_error and on_skip."""
    seen = {}
    for hook, name in w.log:
        if hook in ('m', 's'):
            if name in seen:
                return False
            seen[name] = hook
    if raised_name is not None and raised_name in seen and seen[raised_name] != 's':
        return False
    return True


def kill_from_hook(k: int) -> bool:
    """
    kill() issued from the k-th hook invocation.
    pre: -1 <= k <= 40
    post: _
    """
    w = K(ROOT, '*.txt', None, FLAGS, k=k)
    got = []
    for item in w.imatch():
        got.append(item)
    ok = got == FULL[:len(got)]                                   # prefix of the uninterrupted result
    if 0 <= k < NHOOKS:
        ok = ok and w.is_aborted() and w.kill_at is not None
        hook, name = w.kill_at
        later_files = [n for h, n in w.after_kill if h in ('vf', 'm', 's', 'err') and n != name]
        if hook == 'vd':
            # reading: after a kill from a directory hook at most one file *of the directory being scanned* follows
            ok = ok and len(set(later_files)) <= 1 and all(b == w.kill_base for b in w.after_kill_bases)
        else:
            ok = ok and later_files == []                         # nothing beyond the file being processed
        ok = ok and not any(h == 'vd' for h, n in w.after_kill if (h, n) != w.kill_at)
        ok = ok and w.match() == []                               # stays aborted until reset()
    else:
        ok = ok and got == FULL and not w.is_aborted()
    ok = ok and _routing_ok(w)
    w.k = -1
    w.reset()
    again = w.match()
    return ok and again == FULL and w.get_skipped() == FULL_SKIPPED and not w.is_aborted() and w.log == FULL_LOG


def kill_between_polls(j: int) -> bool:
    """
    The abort flag flips (kill from another thread) immediately before the j-th is_aborted() poll.
    pre: -1 <= j <= 50
    post: _
    """
    w = K(ROOT, '*.txt', None, FLAGS, j=j)
    got = w.match()
    ok = got == FULL[:len(got)] and _routing_ok(w)
    if j < 0:
        ok = ok and got == FULL
    if w.is_aborted():
        # nothing is visited after the poll that saw the flag
        ok = ok and len(got) <= len(FULL)
        w.j = -1
        ok = ok and w.match() == []
        w.reset()
    w.j = -1
    again = w.match()
    return ok and again == FULL and w.get_skipped() == FULL_SKIPPED


def hook_raises(e: int) -> bool:
    """
    The e-th hook invocation raises: the file goes to on_error (value passed through) and is counted as skipped; the walk goes on.
    pre: -1 <= e <= 40
    post: _
    """
    w = K(ROOT, '*.txt', None, FLAGS, e=e)
    try:
        got = w.match()
        escaped = False
    except Boom:
        got = []
        escaped = True
    if e < 0 or e >= NHOOKS:
        return (not escaped) and got == FULL
    hook, name = FULL_LOG[e] if e < len(FULL_LOG) else (None, None)
    ok = True
    if hook in ('vf', 'vd'):
        # comparison/validation hooks are guarded: on_error is called, its value is yielded, the walk continues
        ok = ok and not escaped and ('err', name) in got and ('err', name) in w.log
        if hook == 'vf':
            ok = ok and _routing_ok(w, raised_name=name) and ('m', name) not in got
            rest = [x for x in got if x != ('err', name) and x != ('s', name)]
            ok = ok and rest == [x for x in FULL if x != ('m', name)]
            ok = ok and w.get_skipped() == FULL_SKIPPED + (0 if name == 'c.txt' else 1)
    w.e = -1
    w.reset()
    again = w.match()
    return ok and again == FULL and w.get_skipped() == FULL_SKIPPED and w.resets >= 2


def raise_then_kill(e: int, how: int) -> bool:
    """
    The e-th hook invocation raises and kill() arrives at that moment: from on_error itself (how=0), or from the consumer when it
    receives the value on_error returned (how=1).  The file being processed is still completed: routed to on_skip, counted as skipped.
    pre: 0 <= e <= 40 and 0 <= how <= 1
    post: _
    """
    if e >= NHOOKS or FULL_LOG[e][0] != 'vf':
        return True
    name = FULL_LOG[e][1]
    w = K(ROOT, '*.txt', None, FLAGS, e=e, k=(e + 1 if how == 0 else -1))
    got = []
    for item in w.imatch():
        got.append(item)
        if how == 1 and item == ('err', name):
            w.kill()
            w.kill_at = ('err', name)
    if not w.is_aborted():
        return False
    routed = [h for h, n in w.log if n == name and h in ('m', 's')]
    ok = routed == ['s'] and ('err', name) in w.log
    prior_skips = sum(1 for h, n in w.log if h == 's')
    ok = ok and w.get_skipped() == prior_skips
    ok = ok and not any(h in ('vf', 'vd') for h, n in w.after_kill)           # no further file or directory is visited
    w.e = -1
    w.k = -1
    w.reset()
    return ok and w.match() == FULL and w.get_skipped() == FULL_SKIPPED


def kill_and_poll(k: int, j: int) -> bool:
    """
    Both a hook kill and a poll flip in one run; repeated runs of one object give identical sequences.
    pre: -1 <= k <= 12 and -1 <= j <= 14
    post: _
    """
    w = K(ROOT, '*.txt', None, FLAGS, k=k, j=j)
    got = w.match()
    ok = got == FULL[:len(got)] and _routing_ok(w)
    r0 = w.resets
    w.k = -1
    w.j = -1
    w.reset()
    a = w.match()
    b = list(w.imatch())
    return ok and a == FULL and b == FULL and w.resets == r0 + 2 and w.get_skipped() == FULL_SKIPPED


def _run_ops(ops):
    """Apply a sequence of operations to one object and to a 10-line reference state machine; compare every observable."""
    w = K(ROOT, '*.txt', None, FLAGS)
    aborted = False
    it = None            # live imatch generator
    pos = 0              # how many results the live generator has produced
    for op in ops:
        if op == 0:                      # match()
            r0 = w.resets
            got = w.match()
            if got != ([] if aborted else FULL):
                return False
            # every run - also one made while the object is aborted - calls on_reset once and restarts the skipped counter
            if w.resets != r0 + 1 or w.get_skipped() != (0 if aborted else FULL_SKIPPED):
                return False
            it = None
        elif op == 1:                    # one step of imatch (a fresh generator if none is live)
            fresh = it is None
            r0 = w.resets
            if it is None:
                it = w.imatch()
                pos = 0
            try:
                val = next(it)
                if fresh and w.resets != r0 + 1:
                    return False
                if aborted or pos >= len(FULL) or val != FULL[pos]:
                    return False
                pos += 1
            except StopIteration:
                if not (aborted or pos == len(FULL)):
                    return False
                it = None
        elif op == 2:                    # kill()
            w.kill()
            aborted = True
        elif op == 3:                    # reset()
            w.reset()
            aborted = False
        else:                            # is_aborted()
            if w.is_aborted() != aborted:
                return False
    return True


def op_history3(o1: int, o2: int, o3: int) -> bool:
    """
    Every interleaving of match / imatch-step / kill / reset / is_aborted of length 3 on one object.
    pre: 0 <= o1 <= 4 and 0 <= o2 <= 4 and 0 <= o3 <= 4
    post: _
    """
    return _run_ops([o1, o2, o3])


def op_history5_thorough(o1: int, o2: int, o3: int, o4: int, o5: int) -> bool:
    """
    Length 5 (thorough tier only).
    pre: 0 <= o1 <= 4 and 0 <= o2 <= 4 and 0 <= o3 <= 4 and 0 <= o4 <= 4 and 0 <= o5 <= 4
    post: _
    """
    return _run_ops([o1, o2, o3, o4, o5])


def twin_kill(k: int) -> bool:
    """
    Reachability twin: must be refuted.
    pre: -1 <= k <= 34
    post: not _
    """
    return kill_from_hook(k)

"""Throwaway probe: concolic execution of the real WcParse over symbolic characters."""
import re, time, z3, sys
from wcmatch import _wcparse as wp, util

TRACE = None   # list of (expr, outcome) for current run
LOST = [0]

class SymChar(str):
    def __new__(cls, val, var):
        o = str.__new__(cls, val); o.var = var; return o
    def _rec(self, other, res):
        if isinstance(other, SymChar):
            TRACE.append((self.var == other.var, res))
        elif isinstance(other, str) and len(other) == 1:
            TRACE.append((self.var == ord(other), res))
        elif isinstance(other, str):
            pass  # length differs: comparison is False regardless of value
    def __eq__(self, other):
        res = str.__eq__(self, other)
        if res is NotImplemented: return res
        self._rec(other, res); return res
    def __ne__(self, other):
        res = str.__eq__(self, other)
        if res is NotImplemented: return res
        self._rec(other, res); return not res
    def __hash__(self):
        LOST[0] += 1
        return str.__hash__(self)

class SymStr(str):
    def __new__(cls, chars):
        o = str.__new__(cls, ''.join(chars)); o.chars = chars; return o
    def __getitem__(self, i):
        if isinstance(i, int): return self.chars[i]
        sub = self.chars[i]
        return SymStr(sub)
    def __eq__(self, other):
        if isinstance(other, str) and not isinstance(other, SymStr):
            if len(other) != len(self.chars): return False
            return all(c == o for c, o in zip(self.chars, other))
        return str.__eq__(self, other)
    def __hash__(self):
        LOST[0] += 1; return str.__hash__(self)
    def startswith(self, pre, *a):
        if isinstance(pre, str) and len(pre) <= len(self.chars):
            return all(c == o for c, o in zip(self.chars, pre))
        return str.startswith(self, pre, *a)

class EqSet:
    """frozenset replacement whose membership goes through == (so constraints are recorded)."""
    def __init__(self, items): self.items = tuple(items)
    def __contains__(self, x): return any(x == i for i in self.items)

def sym_ord(c):
    return SymOrd(ord(str(c)), c.var) if isinstance(c, SymChar) else ord(c)
class SymOrd(int):
    def __new__(cls, v, var): o = int.__new__(cls, v); o.var = var; return o
    def __lt__(self, other):
        res = int.__lt__(self, other)
        ov = other.var if isinstance(other, SymOrd) else int(other)
        TRACE.append((self.var < ov, res)); return res

class ReShim:
    def __getattr__(self, n): return getattr(re, n)
    @staticmethod
    def escape(c):
        if isinstance(c, SymChar):
            special = c in SPECIAL   # records constraints one by one through EqSet
        return re.escape(str(c))
SPECIAL = EqSet([chr(i) for i in b'()[]{}?*+-|^$\\.&~# \t\n\r\v\f'])

def install():
    wp.EXT_TYPES = EqSet(wp.EXT_TYPES); wp.SET_OPERATORS = EqSet(wp.SET_OPERATORS)
    wp.NEGATIVE_SYM = EqSet(['!']); wp.MINUS_NEGATIVE_SYM = EqSet(['-']); wp.ROUND_BRACKET = EqSet(['('])
    wp.ord = sym_ord; wp.re = ReShim()
    orig_match = util.StringIter.match
    def match(self, pattern):
        # RE_POSIX: constrain chars via explicit comparison against each class name
        s = self._string
        if isinstance(s, SymStr):
            rest = s[self._index:]
            for name in ('alnum','alpha','ascii','blank','cntrl','digit','graph','lower','print','punct','space','upper','word','xdigit'):
                lit = ':' + name + ':]'
                if len(rest.chars) >= len(lit) and rest[:len(lit)] == lit:
                    break
        return orig_match(self, pattern)
    util.StringIter.match = match

def run_one(vals, vars_, flags):
    global TRACE
    TRACE = []
    p = SymStr([SymChar(chr(v), x) for v, x in zip(vals, vars_)])
    outcome = 'ok'
    try:
        r = wp.WcParse(p, flags).parse()
        try: re.compile(r)
        except re.error as e: outcome = 're.error: %s' % e
    except (ValueError,) as e:
        outcome = 'ValueError'
    except Exception as e:
        outcome = 'EXC %s: %s' % (type(e).__name__, e)
    return outcome, TRACE

def explore(n, flags, cap=60):
    vars_ = [z3.Int('c%d' % i) for i in range(n)]
    dom = [z3.And(v >= 0, v <= 0x10FFFF) for v in vars_]
    s = z3.Solver(); s.add(*dom)
    # worklist of constraint-prefixes (list of (expr, outcome)); generational search
    work = [[]]; seen_paths = set(); bad = {}; paths = 0; t0 = time.time()
    while work and time.time() - t0 < cap:
        pre = work.pop()
        s.push(); [s.add(e if o else z3.Not(e)) for e, o in pre]
        if s.check() != z3.sat: s.pop(); continue
        m = s.model(); s.pop()
        vals = [m.eval(v, model_completion=True).as_long() for v in vars_]
        outcome, tr = run_one(vals, vars_, flags)
        key = tuple((str(e), o) for e, o in tr)
        if key in seen_paths: continue
        seen_paths.add(key); paths += 1
        if outcome != 'ok': bad.setdefault(outcome, ''.join(map(chr, vals)))
        for i in range(len(pre), len(tr)):
            work.append(tr[:i] + [(tr[i][0], not tr[i][1])])
    return paths, len(work), round(time.time() - t0, 1), bad

if __name__ == '__main__':
    install()
    for n in (1, 2, 3):
        for fl in (wp.EXTMATCH, wp.EXTMATCH | wp.PATHNAME | wp.GLOBSTAR):
            print(n, fl, explore(n, fl, cap=60), 'lost-hash', LOST[0], flush=True)

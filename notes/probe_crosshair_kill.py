from wcmatch import wcmatch as W

class K(W.WcMatch):
    def on_init(self, k=-1, j=-1):
        self.k = k; self.j = j; self.n = 0; self.polls = 0; self.log = []
    def _tick(self, what, name):
        self.log.append((what, name))
        if self.n == self.k:
            self.kill()
        self.n += 1
    def on_reset(self):
        self.n = 0; self.polls = 0
    def on_match(self, base, name):
        self._tick('m', name); return ('m', name)
    def on_skip(self, base, name):
        self._tick('s', name); return ('s', name)
    def is_aborted(self):
        if self.polls == self.j:
            self._abort = True
        self.polls += 1
        return self._abort

FULL = K('/tmp/probe/tree', '*.txt', None, W.RECURSIVE | W.HIDDEN).match()

def kill_prefix(k: int, j: int) -> bool:
    """
    pre: -1 <= k <= 12 and -1 <= j <= 30
    post: _
    """
    w = K('/tmp/probe/tree', '*.txt', None, W.RECURSIVE | W.HIDDEN, k=k, j=j)
    got = w.match()
    ok = got == FULL[:len(got)]
    if j < 0 and 0 <= k < len(FULL):
        ok = ok and len(got) == k + 1
    if k < 0 and j < 0:
        ok = ok and got == FULL
    # reset and rerun gives full result
    w.k = -1; w.j = -1
    aborted = w.is_aborted()
    w.reset()
    again = w.match()
    return ok and again == FULL

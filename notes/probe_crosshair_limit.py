from wcmatch import _wcparse as wp
import bracex

class _Rx:
    def __init__(self, p): self.pattern = p

def limit_law(L: int, n1: int, n2: int, e1: int) -> int:
    """
    pre: 0 <= L <= 6 and 1 <= n1 <= 4 and 0 <= n2 <= 4 and 0 <= e1 <= 3
    post: True
    """
    counts = {'a': n1, 'b': n2, 'c': e1}
    pulled = [0]
    def fake_expand(pattern, flags, limit):
        n = counts[pattern]
        k = 0
        while k < n:
            if 0 < limit <= k:
                raise bracex.ExpansionLimitException("x")
            pulled[0] += 1
            yield pattern + "_" + str(k)
            k += 1
    orig = (wp.expand, wp._compile)
    wp.expand = fake_expand
    wp._compile = lambda p, f: _Rx(p)
    try:
        pats = ['a', 'b']
        excl = ['c']
        total = n1 + n2 + e1
        raised = False
        try:
            wp.compile_pattern(pats, 0, L, excl)
        except wp.PatternLimitException:
            raised = True
        if L > 0:
            if total > L:
                assert raised, "must raise"
            else:
                assert not raised, "must not raise"
            assert pulled[0] <= L + 3
        else:
            assert not raised
        return pulled[0]
    finally:
        wp.expand, wp._compile = orig

"""Throwaway probe: sre AST -> positional SMT encoding over a symbolic bounded string."""
import re, time, sys
import re._parser as sp, re._constants as sc
import z3

class Enc:
    def __init__(self, N, solver=None):
        self.N=N
        self.c=[z3.BitVec(f'c{i}',9) for i in range(N)]   # 9 bits: 0..511 alphabet probe
        self.L=z3.Int('L')
        self.memo={}
        self.cons=[self.L>=0,self.L<=N]
    def charset(self, node, flags):
        # returns python predicate -> z3 over char var ; probe: handle LITERAL/NOT_LITERAL/ANY/IN(range/literal/negate/category)
        op,av=node
        def f(ch):
            if op is sc.ANY: return z3.BoolVal(True) if flags & re.S else ch!=10
            if op is sc.LITERAL: return self.lit(ch,av,flags)
            if op is sc.NOT_LITERAL: return z3.Not(self.lit(ch,av,flags))
            if op is sc.IN:
                neg=False; parts=[]
                for o,a in av:
                    if o is sc.NEGATE: neg=True
                    elif o is sc.LITERAL: parts.append(self.lit(ch,a,flags))
                    elif o is sc.RANGE: parts.append(z3.And(z3.UGE(ch,a[0]),z3.ULE(ch,min(a[1],511))))
                    else: raise NotImplementedError(o)
                r=z3.Or(*parts) if parts else z3.BoolVal(False)
                return z3.Not(r) if neg else r
            raise NotImplementedError(op)
        return f
    def lit(self,ch,v,flags):
        if flags & re.I and chr(v).lower()!=chr(v).upper():
            return z3.Or(ch==ord(chr(v).lower()),ch==ord(chr(v).upper()))
        return ch==v
    def seq(self, items, i, flags):
        cur={i:z3.BoolVal(True)}
        for it in items:
            nxt={}
            for j,cj in cur.items():
                for k,ck in self.m(it,j,flags).items():
                    t=z3.And(cj,ck)
                    nxt[k]=z3.Or(nxt[k],t) if k in nxt else t
            cur=nxt
            if not cur: break
        return cur
    def m(self,node,i,flags):
        key=(id(node),i,flags)
        if key in self.memo: return self.memo[key]
        r=self._m(node,i,flags); self.memo[key]=r; return r
    def _m(self,node,i,flags):
        op,av=node
        if op in (sc.ANY,sc.LITERAL,sc.NOT_LITERAL,sc.IN):
            if i>=self.N: return {}
            return {i+1: z3.And(self.L>i, self.charset(node,flags)(self.c[i]))}
        if op is sc.SUBPATTERN:
            g,add,dele,p=av
            return self.seq(list(p),i,(flags|add)&~dele)
        if op is sc.BRANCH:
            out={}
            for alt in av[1]:
                for k,ck in self.seq(list(alt),i,flags).items():
                    out[k]=z3.Or(out[k],ck) if k in out else ck
            return out
        if op in (sc.MAX_REPEAT,sc.MIN_REPEAT):
            lo,hi,p=av
            items=list(p)
            # reach[k] after t iterations
            res={}
            cur={i:z3.BoolVal(True)}
            t=0
            def add(d):
                for k,ck in d.items():
                    res[k]=z3.Or(res[k],ck) if k in res else ck
            if lo==0: add(cur)
            while True:
                t+=1
                if hi is not sc.MAXREPEAT and t>hi: break
                nxt={}
                for j,cj in cur.items():
                    for k,ck in self.seq(items,j,flags).items():
                        tt=z3.And(cj,ck)
                        nxt[k]=z3.Or(nxt[k],tt) if k in nxt else tt
                if not nxt: break
                if t>=lo: add(nxt)
                cur=nxt
                if t>max(lo,self.N+1): break
            return res
        if op is sc.AT:
            if av is sc.AT_BEGINNING: return {i:z3.BoolVal(i==0)}
            if av is sc.AT_END:
                c=self.L==i
                if i<self.N: c=z3.Or(c,z3.And(self.L==i+1,self.c[i]==10))
                return {i:c}
            raise NotImplementedError(av)
        if op in (sc.ASSERT,sc.ASSERT_NOT):
            d,p=av
            assert d==1
            r=self.seq(list(p),i,flags)
            c=z3.Or(*r.values()) if r else z3.BoolVal(False)
            return {i: c if op is sc.ASSERT else z3.Not(c)}
        raise NotImplementedError(op)
    def full(self,rx):
        p=sp.parse(rx); self.keep=getattr(self,'keep',[]); self.keep.append(p)
        r=self.seq(list(p),0,p.state.flags)
        return z3.Or(*[z3.And(c,self.L==k) for k,c in r.items()]) if r else z3.BoolVal(False)
    def model_str(self,mod):
        L=mod.eval(self.L,model_completion=True).as_long()
        return ''.join(chr(mod.eval(self.c[i],model_completion=True).as_long()) for i in range(L))

def differ(r1,r2,N,extra=None):
    e=Enc(N); a=e.full(r1); b=e.full(r2)
    s=z3.Solver(); s.add(*e.cons); s.add(a!=b)
    if extra: s.add(extra(e))
    t=time.time(); res=s.check(); dt=time.time()-t
    return str(res), (e.model_str(s.model()) if str(res)=='sat' else None), dt

if __name__=='__main__':
    from wcmatch import fnmatch as F, glob as G
    N=int(sys.argv[1]) if len(sys.argv)>1 else 6
    tests=[('fn','+(?)',F.EXTMATCH),('fn','!(a|b)c',F.EXTMATCH),('gl','**/a/*(b|?c)/!(x)',G.EXTGLOB|G.GLOBSTAR),
           ('gl','a/**/[a-c]?/*.txt',G.GLOBSTAR|G.DOTGLOB),('gl','*(a|!(b))x',G.EXTGLOB),('fn','@(a|b)*[[:alpha:]]',F.EXTMATCH|F.IGNORECASE)]
    for mode,p,fl in tests:
        mod=F if mode=='fn' else G
        tr=mod.translate(p,flags=fl)[0][0]
        cp=mod.compile(p,flags=fl)._matcher._include[0].pattern
        t=time.time()
        r=differ(tr,cp,N)
        print(p, 'translate-vs-compile', r, 'total %.2fs'%(time.time()-t))
    # mutation: compare with a wrong regex
    r=differ(r'^(?s:(?=.)(?![.]).*?a)$', r'^(?s:(?=.).*?a)$', N); print('mut',r)
    r=differ(G.translate('**/a',flags=G.GLOBSTAR)[0][0], G.translate('**/a',flags=G.GLOBSTAR|G.DOTGLOB)[0][0], N); print('dot',r)

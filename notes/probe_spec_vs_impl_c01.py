"""Throwaway probe: spec AST (MUST only, negation-free + simple !()) vs real fnmatch regex, sym name."""
import itertools, time, re, z3, sys
from rx import Enc
from wcmatch import fnmatch as F

# --- spec AST: ('lit',c) ('any1',) ('run',) ('cls',neg,[(lo,hi)..]) ('grp',kind,[alts]) ('neg',[alts]) ; seq = list
def render(seq):
    out=[]
    for n in seq:
        k=n[0]
        if k=='lit': out.append(('\\'+n[1]) if n[1] in '*?[]()|!\\@+' else n[1])
        elif k=='any1': out.append('?')
        elif k=='run': out.append('*')
        elif k=='cls': out.append(n[3])
        elif k=='grp': out.append(n[1]+'('+'|'.join(render(a) for a in n[2])+')')
        elif k=='neg': out.append('!('+'|'.join(render(a) for a in n[1])+')')
    return ''.join(out)

class Spec:
    def __init__(self, e): self.e=e; self.memo={}
    def ch(self,i,pred):
        e=self.e
        if i>=e.N: return {}
        return {i+1: z3.And(e.L>i, pred(e.c[i]))}
    def seq(self,items,i):
        cur={i:z3.BoolVal(True)}
        for it in items:
            nxt={}
            for j,cj in cur.items():
                for k,ck in self.m(it,j).items():
                    t=z3.And(cj,ck); nxt[k]=z3.Or(nxt[k],t) if k in nxt else t
            cur=nxt
        return cur
    def alts(self,alts,i):
        out={}
        for a in alts:
            for k,ck in self.seq(a,i).items(): out[k]=z3.Or(out[k],ck) if k in out else ck
        return out
    def star(self,alts,i,lo):
        res={}; cur={i:z3.BoolVal(True)}
        if lo==0: res.update(cur)
        for t in range(1,self.e.N+2):
            nxt={}
            for j,cj in cur.items():
                for k,ck in self.alts(alts,j).items():
                    if k==j: continue
                    tt=z3.And(cj,ck); nxt[k]=z3.Or(nxt[k],tt) if k in nxt else tt
            if t==1 and lo==1:
                # one iteration may also be empty
                for k,ck in self.alts(alts,i).items():
                    if k==i: res[k]=z3.Or(res.get(k,z3.BoolVal(False)),ck)
            if not nxt: break
            for k,ck in nxt.items(): res[k]=z3.Or(res[k],ck) if k in res else ck
            cur=nxt
        return res
    def m(self,n,i):
        key=(id(n),i)
        if key in self.memo: return self.memo[key]
        k=n[0]; e=self.e
        if k=='lit': r=self.ch(i,lambda c: c==ord(n[1]))
        elif k=='any1': r=self.ch(i,lambda c: z3.BoolVal(True))
        elif k=='run': r={j: e.L>=j for j in range(i,e.N+1)}
        elif k=='cls':
            def pred(c,n=n):
                p=z3.Or(*[z3.And(z3.UGE(c,lo),z3.ULE(c,hi)) for lo,hi in n[2]])
                return z3.Not(p) if n[1] else p
            r=self.ch(i,pred)
        elif k=='grp':
            kind=n[1]
            if kind=='@': r=self.alts(n[2],i)
            elif kind=='?':
                r=dict(self.alts(n[2],i)); r[i]=z3.BoolVal(True)
            elif kind=='*': r=self.star(n[2],i,0)
            elif kind=='+': r=self.star(n[2],i,1)
        self.memo[key]=r; return r
    def full(self,seq):
        # handle top-level neg followed by literal tail only
        e=self.e
        negs=[ix for ix,n in enumerate(seq) if n[0]=='neg']
        if not negs:
            r=self.seq(seq,0)
            return z3.Or(*[z3.And(c,e.L==k) for k,c in r.items()]) if r else z3.BoolVal(False)
        assert len(negs)==1
        ix=negs[0]; pre=seq[:ix]; tail=seq[ix+1:]
        assert all(t[0]=='lit' for t in tail)
        tl=len(tail)
        out=[]
        for j,cj in self.seq(pre,0).items():
            for end in range(j,e.N+1-tl):
                # s[j:end] not in alts, then tail literal at end..end+tl, L==end+tl
                inalt=self.alts(seq[ix][1],j).get(end,z3.BoolVal(False))
                tailok=z3.And(*[e.c[end+q]==ord(tail[q][1]) for q in range(tl)]) if tl else z3.BoolVal(True)
                out.append(z3.And(cj,z3.Not(inalt),tailok,e.L==end+tl))
        return z3.Or(*out) if out else z3.BoolVal(False)

LITS=[('lit','a'),('lit','b'),('lit','.')]
CLS=[('cls',False,[(97,98)],'[ab]'),('cls',True,[(97,97)],'[!a]'),('cls',False,[(65,90),(97,122)],'[[:alpha:]]'),('cls',False,[(46,46)],'[.]')]
ATOMS=LITS+[('any1',),('run',)]+CLS
def small_seqs(maxlen):
    for n in range(1,maxlen+1):
        for t in itertools.product(ATOMS,repeat=n): yield list(t)
def patterns():
    inner=[s for s in small_seqs(1)]+[[('lit','a'),('lit','b')],[('run',),('lit','a')],[('any1',),('lit','.')]]
    groups=[]
    for kind in '?*+@':
        for a in inner:
            groups.append(('grp',kind,[a]))
        groups.append(('grp',kind,[[('lit','a')],[('lit','b'),('any1',)]]))
    negs=[('neg',[[('lit','a')]]),('neg',[[('lit','a')],[('lit','b'),('run',)]]),('neg',[[('any1',)]])]
    for s in small_seqs(2): yield s
    for g in groups:
        yield [g]
        for a in ATOMS:
            yield [a,g]; yield [g,a]
    for ng in negs:
        yield [ng]; yield [ng,('lit','a')]; yield [ng,('lit','.'),('lit','b')]
        for a in LITS: yield [a,ng]

def main():
    N=6; t0=time.time(); stats={'unsat':0,'sat':0}; sats=[]
    for dot in (True,False):
        fl=F.EXTMATCH|(F.DOTMATCH if dot else 0)
        for seq in patterns():
            p=render(seq)
            try: rx=F.compile(p,flags=fl)._matcher._include[0].pattern
            except Exception as ex:
                print('EXC',p,ex); continue
            e=Enc(N); impl=e.full(rx); sp=Spec(e); must=sp.full(seq)
            s=z3.Solver(); s.add(*e.cons); s.add(e.L>=1)
            if not dot: s.add(e.c[0]!=46)
            s.add(impl!=must)
            r=str(s.check()); stats[r]+=1
            if r=='sat':
                w=e.model_str(s.model()); real=F.fnmatch(w,p,flags=fl)
                sats.append((dot,p,w,real))
    print(stats, round(time.time()-t0,1),'s')
    from collections import Counter
    for d,p,w,real in sats[:80]: print('DOT' if d else 'nodot', repr(p), repr(w), 'impl=',real)
    print(len(sats))
main()

"""Throwaway probe: dynamic symbolic execution over a lazily-decided symbolic file system."""
import os, posixpath, time, z3, errno
from wcmatch import glob as G

ABSENT, FILE, DIR, LINK = 0, 1, 2, 3

class Explorer:
    """Re-execution DFS. decide(expr) forks only when both outcomes are satisfiable under the path condition."""
    def __init__(self, invariants):
        self.s = z3.Solver(); self.s.add(*invariants)
        self.prefix = []      # list of [expr, value, other_tried]
        self.pos = 0
        self.paths = 0; self.solver_calls = 0; self.forced = 0
    def begin(self):
        self.pos = 0
        self.s.push()
    def end(self):
        self.s.pop()
        # backtrack
        while self.prefix and self.prefix[-1][2]:
            self.prefix.pop()
        if not self.prefix: return False
        self.prefix[-1][1] = not self.prefix[-1][1]; self.prefix[-1][2] = True
        return True
    def sat(self, e):
        self.solver_calls += 1
        self.s.push(); self.s.add(e); r = self.s.check(); self.s.pop()
        return r == z3.sat
    def decide(self, expr):
        if self.pos < len(self.prefix):
            e, v, _ = self.prefix[self.pos]
            self.pos += 1
            self.s.add(expr if v else z3.Not(expr))
            return v
        t = self.sat(expr); f = self.sat(z3.Not(expr))
        assert t or f
        if t and f:
            self.prefix.append([expr, True, False])
            v = True
        else:
            self.forced += 1
            v = t
            self.prefix.append([expr, v, True])   # no alternative
        self.pos += 1
        self.s.add(expr if v else z3.Not(expr))
        return v

class SymFS:
    def __init__(self, slots, targets, ex):
        self.slots = slots            # list of paths
        self.targets = targets        # list of candidate link target paths ('' = root, None = dangling)
        self.ex = ex
        self.kind = {p: z3.Int('k_' + p) for p in slots}
        self.tgt = {p: z3.Int('t_' + p) for p in slots}
        self.children = {}
        for p in slots:
            par, _, name = p.rpartition('/')
            self.children.setdefault(par, []).append((name, p))
        self.scans = 0
    def invariants(self):
        inv = []
        for p in self.slots:
            inv += [self.kind[p] >= 0, self.kind[p] <= 3, self.tgt[p] >= 0, self.tgt[p] < len(self.targets)]
            par = p.rpartition('/')[0]
            if par:
                inv.append(z3.Implies(self.kind[p] != ABSENT, self.kind[par] == DIR))
        return inv
    def k(self, p):
        # concrete kind of slot via decisions
        for v in (ABSENT, FILE, DIR):
            if self.ex.decide(self.kind[p] == v): return v
        return LINK
    def target(self, p):
        for i in range(len(self.targets) - 1):
            if self.ex.decide(self.tgt[p] == i): return self.targets[i]
        return self.targets[-1]
    def walk(self, path, follow_last, depth=0):
        """Resolve path -> (kind, canonical slot path) ; raises OSError"""
        if depth > 8: raise OSError(errno.ELOOP, 'loop')
        parts = [x for x in path.split('/') if x and x != '.']
        cur = ''
        for i, part in enumerate(parts):
            last = i == len(parts) - 1
            if part == '..':
                cur = cur.rpartition('/')[0]; continue
            nxt = part if not cur else cur + '/' + part
            if nxt not in self.kind: raise FileNotFoundError(path)
            k = self.k(nxt)
            if k == ABSENT: raise FileNotFoundError(path)
            if k == LINK and (not last or follow_last):
                t = self.target(nxt)
                if t is None: raise FileNotFoundError(path)
                kk, cur = self.walk(t, True, depth + 1)
                if not last and kk != DIR: raise NotADirectoryError(path)
                if last: return kk, cur
            elif last:
                return k, nxt
            elif k != DIR:
                raise NotADirectoryError(path)
            else:
                cur = nxt
        return DIR, cur
    # os stubs
    def lexists(self, p):
        try: self.walk(p, False); return True
        except OSError: return False
    def isdir(self, p):
        try: return self.walk(p, True)[0] == DIR
        except OSError: return False
    def islink(self, p):
        try: return self.walk(p, False)[0] == LINK
        except OSError: return False
    def scandir(self, p):
        self.scans += 1
        if self.scans > 300: raise RuntimeError('scan budget exceeded')
        k, d = self.walk(p, True)
        if k != DIR: raise NotADirectoryError(p)
        out = []
        for name, slot in self.children.get(d, []):
            kk = self.k(slot)
            if kk != ABSENT: out.append(Entry(self, name, slot, kk))
        return Scan(out)
class Entry:
    def __init__(self, fs, name, slot, k): self.fs, self.name, self.slot, self.kk = fs, name, slot, k
    def is_symlink(self): return self.kk == LINK
    def is_dir(self):
        if self.kk == LINK: return self.fs.isdir(self.slot)
        return self.kk == DIR
class Scan(list):
    def __enter__(self): return iter(self)
    def __exit__(self, *a): return False

def explore(slots, targets, pattern, flags):
    dummy = Explorer([])
    fs0 = SymFS(slots, targets, dummy)
    ex = Explorer(fs0.invariants())
    results = {}
    t0 = time.time()
    while True:
        ex.begin()
        fs = SymFS(slots, targets, ex)
        saved = (os.scandir, os.path.lexists, os.path.isdir, os.path.islink)
        os.scandir, os.path.lexists, os.path.isdir, os.path.islink = fs.scandir, fs.lexists, fs.isdir, fs.islink
        try:
            try: r = tuple(sorted(G.glob(pattern, flags=flags)))
            except RuntimeError as e: r = ('!!', str(e))
        finally:
            os.scandir, os.path.lexists, os.path.isdir, os.path.islink = saved
        ex.paths += 1
        results[r] = results.get(r, 0) + 1
        if not ex.end(): break
    return ex.paths, ex.solver_calls, ex.forced, len(results), round(time.time() - t0, 2)

if __name__ == '__main__':
    slots = ['a', 'b', '.h', 'L', 'a/x', 'a/.y', 'a/L2', 'a/d', 'a/d/x', 'b/x']
    targets = ['', 'a', 'a/d', 'a/x', None]
    for pat, fl in [('a/*', 0), ('**/x', G.GLOBSTAR), ('**', G.GLOBSTAR), ('*/x', 0), ('**/x', G.GLOBSTAR | G.FOLLOW), ('L/*', 0)]:
        print(pat, fl, explore(slots, targets, pat, fl), '(paths, solver calls, forced, distinct results, s)')

"""C01 - file-name matching follows the documented wildcard language (E1: spec AST vs real fnmatch regex)."""
from __future__ import annotations
import random

from engine import common, gen, e1, speccheck, regions

LEVEL = 'model_checking'


def flagsets(F):
    E, D, I, C, U = F.EXTMATCH, F.DOTMATCH, F.IGNORECASE, F.CASE, F.FORCEUNIX
    return [E | D, E, E | D | I, E | I | C, E | U, E | D | U | C]


def build_items(ctx, rnd):
    from wcmatch import fnmatch as F
    fs = flagsets(F)
    pool = gen.segment_pool(ctx.tier, rnd, ext=True, budget=None if ctx.quick else 20000)
    items = []
    for k, nodes in enumerate(pool):
        ext = gen.count_groups(nodes) > 0
        if ctx.quick:
            chosen = [fs[0], fs[1]] + ([fs[2 + k % 4]] if k % 3 == 0 else [])
        else:
            chosen = [fs[0], fs[1], fs[2 + k % 4], fs[2 + (k + 1) % 4]]
        for f in chosen:
            items.append(('fn', nodes, f, 'visible'))
        if not ext:
            items.append(('fn', nodes, (F.DOTMATCH if k % 2 else 0), 'visible'))
    # systematic bracket expressions (ranges, POSIX classes, escapes, negation, odd placements of ] - ^ !)
    for k, b in enumerate(gen.bracket_pool(ctx.tier, rnd)):
        items.append(('fn', (b,), F.DOTMATCH, 'visible'))
        items.append(('fn', (gen.lit('a'), b), fs[k % len(fs)], 'visible'))
        if k % 5 == 0:
            items.append(('fn', (b, gen.STAR, b), F.IGNORECASE | F.DOTMATCH, 'visible'))
            items.append(('fn', (('grp', '+', ((b,), (gen.lit('.'),))),), F.EXTMATCH | F.DOTMATCH, 'visible'))
    return items


def run(ctx, prop='C01', domain='visible'):
    rnd = random.Random(ctx.seed * 7919 + 1)
    N = 6 if ctx.quick else 8
    live = common.check_known_witnesses(ctx)
    items = build_items(ctx, rnd)
    results = common.pmap(speccheck.obligation, items, ctx.workers, extra=(N, live))
    summarise(ctx, results, N, live, 'fn')


def summarise(ctx, results, N, live, mode):
    q = {'sat': 0, 'unsat': 0, 'unknown': 0}
    solver_s = 0.0
    distinct = set()
    samples = []
    region_hits = {}
    exact = 0
    for res in results:
        for k in q:
            q[k] += res[k]
        solver_s += res['solver_s']
        for r in res['regions']:
            region_hits[r] = region_hits.get(r, 0) + 1
        st = res['status']
        md, ast, flags, domain = res['item']
        if st in ('ok', 'region_all', 'skip'):
            if st == 'ok':
                distinct.add((res['text'], flags))
                exact += bool(res.get('exact'))
                if len(samples) < 6 and res.get('acc') and len(res['text']) > 3:
                    samples.append({'pattern': res['text'], 'flags': e1.flagnames(md, flags), 'exact_fragment': res.get('exact'),
                                    'verdict': 'must=>impl and impl=>may unsat for all names <= N', 'accepted': res.get('acc'),
                                    'rejected': res.get('rej')})
            continue
        if st in ('unknown', 'not_encodable', 'encoder_mismatch', 'spec_error'):
            ctx.inconclusive.append({'why': st, 'pattern': res['text'], 'flags': flags, 'detail': res.get('exc') or res.get('witness')})
            continue
        if st == 'compile_raises':
            rep = {'describe': 'compile of a grammar-valid pattern raises ' + res['exc'],
                   'steps': [{'as': 'ok', 'call': 'engine.replayfn.translate_and_compile_ok', 'args': [md, res['text'], {'flags': flags}]}],
                   'assert': 'ok == True'}
            common.confirm(ctx, rep)
            continue
        expect = st == 'missing'
        rep = e1.replay_match(md, res['witness'], res['text'], flags, expect,
                              describe=f'{ctx.prop}: spec {"grants" if expect else "forbids"} the match of {res["witness"]!r} by {res["text"]!r} '
                                       f'[{e1.flagnames(md, flags)}]')
        common.confirm(ctx, rep)
    ctx.coverage.update({
        'evaluations': q['sat'] + q['unsat'] + q['unknown'],
        'distinct_nontrivial': len(distinct),
        'rule': 'one obligation per (pattern AST, flags): queries must&&!impl and impl&&!may over a symbolic name; distinct = distinct '
                '(pattern text, flags) whose obligations were discharged; evaluations = solver queries (twins excluded)',
        'samples': samples,
        'obligations': len(results),
        'exact_fragment_obligations': exact,
        'queries': q,
        'solver_time_s': round(solver_s, 2),
        'bounds': {'name_length_max': N, 'alphabet': 'all code points; ASCII when case-insensitive'},
        'known_region_subtractions': region_hits,
        'functions_encoded': ['wcmatch.%s.compile -> _wcparse.WcParse (run concretely), executed regexes encoded' % ('fnmatch' if mode == 'fn' else 'glob')],
        'exhaustive': not ctx.inconclusive,
        'outside_claim': ['names longer than N', 'patterns outside the generated pools', 'non-ASCII names under IGNORECASE'],
    })
    ctx.assumptions += ['z3 QF_BV', 're._parser AST == what _sre executes', 'spec AST semantics reviewed against the property text (engine/spec.py)']

"""C02 - path matching respects separators, segments, globstar and MATCHBASE (E1: path spec vs real glob regexes)."""
from __future__ import annotations
import random

from engine import common, gen, e1, speccheck
from props.c01 import summarise

LEVEL = 'model_checking'


def flagsets(G):
    E, D, S, L, MB, ND, U = G.EXTGLOB, G.DOTGLOB, G.GLOBSTAR, G.GLOBSTARLONG, G.MATCHBASE, G.NODIR, G.FORCEUNIX
    return [E | S, E | S | D, E, E | S | L, E | S | MB, E | S | ND, E | D | L | MB, E | S | D | ND | U, E | MB, E | L | ND]


def build_items(ctx, rnd, domain='visible'):
    from wcmatch import glob as G
    fs = flagsets(G)
    pool = gen.path_pool(ctx.tier, rnd, ext=True, budget=None if ctx.quick else 10000)
    items = []
    for k, ast in enumerate(pool):
        if ctx.quick:
            chosen = [fs[0], fs[1 + k % (len(fs) - 1)]]
        else:
            chosen = [fs[0], fs[1], fs[2 + k % (len(fs) - 2)], fs[2 + (k + 3) % (len(fs) - 2)]]
        for f in chosen:
            items.append(('gl', ast, f, domain))
    # written separators spelled with an escape: the pattern is no longer slash-less (MATCHBASE must not apply), segments stay segments
    esc = ('sep', '\\/')
    base = [x for x in pool if sum(1 for it in x if it[0] == 'sep' and it[1] == '/') >= 1 and len(x) <= 5][: (60 if ctx.quick else 400)]
    for k, ast in enumerate(base):
        idx = [i for i, it in enumerate(ast) if it[0] == 'sep' and it[1] == '/']
        for variant in ({idx[0]}, set(idx)):
            a2 = tuple(esc if i in variant else it for i, it in enumerate(ast))
            for f in (fs[4], fs[8], fs[6], fs[0]):
                items.append(('gl', a2, f, domain))
    # brackets whose ranges / classes span '/' without writing it, in several positions
    br = [b for b in gen.bracket_pool(ctx.tier, rnd) if any(a <= 47 <= c for a, c in b[3]) != b[2]]
    sl = ('sep', '/')
    for k, b in enumerate(br[:: 1 if not ctx.quick else 3]):
        items.append(('gl', (('seg', (gen.lit('a'), b, gen.lit('b'))),), fs[k % 2], domain))
        items.append(('gl', (('seg', (gen.lit('a'),)), sl, ('seg', (b, gen.STAR))), fs[1], domain))
    return items


def matchbase_law(item, N):
    """Relational form of the MATCHBASE clause, for ANY slash-less pattern text (malformed ones included, no spec involved):
    the real matcher with MATCHBASE accepts the visible one-directory path `d/`+t  <=>  the real matcher without MATCHBASE accepts t,
    and on slash-less names MATCHBASE changes nothing.  z3 decides both for every t up to N."""
    import z3
    from engine.rxsmt import SymStr, RxEnc, NotEncodable
    from wcmatch import glob as G
    text, flags = item
    res = {'item': item, 'status': 'ok', 'sat': 0, 'unsat': 0, 'unknown': 0, 'solver_s': 0.0}
    try:
        plain = e1.real_regexes('gl', text, flags & ~G.MATCHBASE)
        mb = e1.real_regexes('gl', text, flags | G.MATCHBASE)
    except Exception as ex:  # noqa: BLE001
        res['status'] = 'compile_raises'
        res['exc'] = type(ex).__name__
        return res
    import re as _re
    if _re.search(r'[?*+@]\(', text) and any(e1._rc(r).fullmatch('') for r in plain[0]):
        # a pattern that starts with a group able to match the empty string: with the implicit `**/` prefix of MATCHBASE this is the
        # walker/matcher form of the listed finding empty-segment-by-nullable-group (the whole name is taken by the prefix)
        res['status'] = 'region_nullable_group'
        return res
    try:
        t = SymStr('t', N, False)
        et = RxEnc(t)
        f_plain = et.matcher(*plain)
        f_mb_same = et.matcher(*mb)
        s2 = SymStr('u', N + 2, False)
        e2 = RxEnc(s2)
        f_mb_dir = e2.matcher(*mb)
        tie = [s2.L == t.L + 2, s2.c[0] == s2.cv(ord('d')), s2.c[1] == s2.cv(47)] + [z3.Implies(t.len_gt(i), s2.c[i + 2] == t.c[i]) for i in range(N)]
        dom = et.side_constraints() + e2.side_constraints() + tie + [t.len_ge(1)]
        dom += [t.c[i] != t.cv(47) for i in range(N)] + [t.c[0] != t.cv(46), t.c[t.N - 1] == t.c[t.N - 1]]
        # names ending in a newline: footprint of the listed `$` finding (MATCHBASE adds a globstar fragment)
        dom += [z3.Not(z3.And(t.len_eq(L), t.c[L - 1] == t.cv(10))) for L in range(1, N + 1)]
    except NotEncodable as ex:
        res['status'] = 'not_encodable'
        res['exc'] = str(ex)
        return res
    for label, f in (('matchbase_changes_slashless_name', z3.Xor(f_plain, f_mb_same)), ('matchbase_dir_prefix', z3.Xor(f_plain, f_mb_dir))):
        r, m, dt = e1.solve(dom + [f])
        res[r] += 1
        res['solver_s'] += dt
        if r == 'sat':
            res['status'] = label
            res['witness'] = t.eval(m)
            return res
        if r != 'unsat':
            res['status'] = 'unknown'
            return res
    return res


def matchbase_items(ctx, rnd):
    from wcmatch import glob as G
    E, S, D = G.EXTGLOB, G.GLOBSTAR, G.DOTGLOB
    texts = [t for t in gen.odd_patterns() if '/' not in t] + ['\\', 'a\\', '\\a', '*\\', '[a\\', '@(a\\', 'a', '*', '?', '*.a', '[ab]*', '@(a|b)', '!(a)', '+(a)b', '']
    segs = gen.segment_pool('quick', rnd, ext=True)
    texts += [gen.render_nodes(n) for n in (segs[::40] if ctx.quick else segs[::6])]
    out = []
    for k, t in enumerate(dict.fromkeys(texts)):
        if '/' in t:
            continue
        for f in ([E | S, E | D] if ctx.quick else [E | S, E | D, E, S | D | E | G.GLOBSTARLONG, E | G.NODOTDIR, 0]):
            out.append((t, f))
    return out


def run(ctx):
    rnd = random.Random(ctx.seed * 7919 + 2)
    N = 7 if ctx.quick else 9
    live = common.check_known_witnesses(ctx)
    items = build_items(ctx, rnd)
    results = common.pmap(speccheck.obligation, items, ctx.workers, extra=(N, live))
    summarise(ctx, results, N, live, 'gl')
    # relational MATCHBASE law over arbitrary texts
    mitems = matchbase_items(ctx, rnd)
    mres = common.pmap(matchbase_law, mitems, ctx.workers, extra=(5 if ctx.quick else 6,))
    nq = 0
    for r in mres:
        nq += r['sat'] + r['unsat'] + r['unknown']
        st = r['status']
        text, flags = r['item']
        if st == 'ok' or st == 'compile_raises':
            continue
        if st == 'region_nullable_group':
            if 'empty-segment-by-nullable-group' in live:
                continue
            ctx.inconclusive.append({'why': 'matchbase law: nullable-group pattern but the listed finding is not live', 'item': r['item']})
            continue
        if st in ('unknown', 'not_encodable'):
            ctx.inconclusive.append({'why': 'matchbase law: ' + st, 'item': r['item'], 'detail': r.get('exc')})
            continue
        w = r['witness']
        from wcmatch import glob as G
        name = w if st == 'matchbase_changes_slashless_name' else 'd/' + w
        rep = {'describe': f'C02 MATCHBASE law ({st}) for slash-less pattern {text!r} [{e1.flagnames("gl", flags)}]: with MATCHBASE {name!r}, without {w!r}',
               'steps': [{'as': 'a', 'call': 'engine.replayfn.matcher_accepts', 'args': ['gl', text, name, {'flags': flags | G.MATCHBASE}]},
                         {'as': 'b', 'call': 'engine.replayfn.matcher_accepts', 'args': ['gl', text, w, {'flags': flags & ~G.MATCHBASE}]}],
               'assert': 'a == b'}
        common.confirm(ctx, rep)
    ctx.coverage['matchbase_law'] = {'obligations': len(mitems), 'queries': nq, 'name_length_max': 5 if ctx.quick else 6,
                                     'statement': 'accepts(p, MATCHBASE, "d/"+t) == accepts(p, t) and accepts(p, MATCHBASE, t) == accepts(p, t) for slash-less visible t'}
    ctx.coverage['evaluations'] = ctx.coverage.get('evaluations', 0) + nq

"""C02 - path matching respects separators, segments, globstar and MATCHBASE (E1: path spec vs real glob regexes)."""
from __future__ import annotations
import random

from engine import common, gen, e1, speccheck
from props.c01 import summarise

LEVEL = 'model_checking'


def flagsets(G):
    E, D, S, L, MB, ND, U = G.EXTGLOB, G.DOTGLOB, G.GLOBSTAR, G.GLOBSTARLONG, G.MATCHBASE, G.NODIR, G.FORCEUNIX
    return [E | S, E | S | D, E, E | S | L, E | S | MB, E | S | ND, E | D | L | MB, E | S | D | ND | U, E | MB, E | L | ND]


def build_items(ctx, rnd, domain='visible'):
    from wcmatch import glob as G
    fs = flagsets(G)
    pool = gen.path_pool(ctx.tier, rnd, ext=True, budget=None if ctx.quick else 30000)
    items = []
    for k, ast in enumerate(pool):
        if ctx.quick:
            chosen = [fs[0], fs[1 + k % (len(fs) - 1)]]
        else:
            chosen = [fs[0], fs[1], fs[2 + k % (len(fs) - 2)], fs[2 + (k + 3) % (len(fs) - 2)]]
        for f in chosen:
            items.append(('gl', ast, f, domain))
    # written separators spelled with an escape: the pattern is no longer slash-less (MATCHBASE must not apply), segments stay segments
    esc = ('sep', '\\/')
    base = [x for x in pool if sum(1 for it in x if it[0] == 'sep' and it[1] == '/') >= 1 and len(x) <= 5][: (60 if ctx.quick else 400)]
    for k, ast in enumerate(base):
        idx = [i for i, it in enumerate(ast) if it[0] == 'sep' and it[1] == '/']
        for variant in ({idx[0]}, set(idx)):
            a2 = tuple(esc if i in variant else it for i, it in enumerate(ast))
            for f in (fs[4], fs[8], fs[6], fs[0]):
                items.append(('gl', a2, f, domain))
    # brackets whose ranges / classes span '/' without writing it, in several positions
    br = [b for b in gen.bracket_pool(ctx.tier, rnd) if any(a <= 47 <= c for a, c in b[3]) != b[2]]
    sl = ('sep', '/')
    for k, b in enumerate(br[:: 1 if not ctx.quick else 3]):
        items.append(('gl', (('seg', (gen.lit('a'), b, gen.lit('b'))),), fs[k % 2], domain))
        items.append(('gl', (('seg', (gen.lit('a'),)), sl, ('seg', (b, gen.STAR))), fs[1], domain))
    return items


def run(ctx):
    rnd = random.Random(ctx.seed * 7919 + 2)
    N = 7 if ctx.quick else 9
    live = common.check_known_witnesses(ctx)
    items = build_items(ctx, rnd)
    results = common.pmap(speccheck.obligation, items, ctx.workers, extra=(N, live))
    summarise(ctx, results, N, live, 'gl')

"""C03 - hidden names and the special directories are never matched by wildcards (E1 part: match side).

Same spec/impl obligations as C01/C02 but on the complementary domain: names/paths that DO contain a segment
beginning with '.' (without DOTMATCH/DOTGLOB) or a segment that is exactly . or .. (with DOTGLOB)."""
from __future__ import annotations
import random

from engine import common, gen, e1, speccheck
from props.c01 import summarise

LEVEL = 'model_checking'


def build_items(ctx, rnd):
    from wcmatch import fnmatch as F, glob as G
    items = []
    segs = gen.segment_pool(ctx.tier, rnd, ext=True, budget=2000 if ctx.quick else 8000)
    for k, nodes in enumerate(segs):
        items.append(('fn', nodes, F.EXTMATCH, 'hidden'))
        if k % 5 == 0:
            items.append(('fn', nodes, F.EXTMATCH | F.IGNORECASE, 'hidden'))
        # the same single segment in glob mode: leading dot and the . / .. rule
        gi = (('seg', nodes),)
        items.append(('gl', gi, G.EXTGLOB, 'hidden'))
        items.append(('gl', gi, G.EXTGLOB | G.DOTGLOB, 'hidden'))
        if k % 3 == 0:
            items.append(('gl', gi, G.EXTGLOB | G.NODOTDIR | (G.DOTGLOB if k % 2 else 0), 'hidden'))
            items.append(('gl', gi, G.EXTGLOB | G.MATCHBASE | G.GLOBSTAR, 'hidden'))
    E, D, S, L, MB, ND, NDD = G.EXTGLOB, G.DOTGLOB, G.GLOBSTAR, G.GLOBSTARLONG, G.MATCHBASE, G.NODIR, G.NODOTDIR
    fs = [E | S, E | S | D, E | S | NDD, E | S | D | NDD, E | S | MB, E | L | D, E | S | ND, E]
    paths = gen.path_pool(ctx.tier, rnd, ext=True, budget=None if ctx.quick else 6000)
    for k, ast in enumerate(paths):
        if ctx.quick:
            chosen = [fs[0], fs[1], fs[2 + k % (len(fs) - 2)]]
        else:
            chosen = [fs[0], fs[1], fs[2 + k % (len(fs) - 2)], fs[2 + (k + 3) % (len(fs) - 2)]]
        for f in chosen:
            items.append(('gl', ast, f, 'hidden'))
    return items


def run(ctx):
    rnd = random.Random(ctx.seed * 7919 + 3)
    N = 6 if ctx.quick else 8
    live = common.check_known_witnesses(ctx)
    # deviations listed under C01/C02 (not dot-related) are excluded from C03's domain, not reported as C03 findings
    live |= common.check_known_witnesses(ctx, 'C01', report=False) | common.check_known_witnesses(ctx, 'C02', report=False)
    items = build_items(ctx, rnd)
    results = common.pmap(speccheck.obligation, items, ctx.workers, extra=(N, live))
    summarise(ctx, results, N, live, 'gl')
    # lists: exclusions behave as if DOTGLOB were set, inclusions of the same call do not - whatever their order and however the
    # list is written (list, SPLIT, BRACE, NEGATEALL): the C07 obligation restricted to hidden names
    from props import c07
    from wcmatch import fnmatch as F, glob as G
    litems = []
    for mode, m in (('fn', F), ('gl', G)):
        E = m.EXTMATCH if mode == 'fn' else (m.EXTGLOB | m.GLOBSTAR)
        Nf, A, SP, B, MN = m.NEGATE, m.NEGATEALL, m.SPLIT, m.BRACE, m.MINUSNEGATE
        for inc, exc in ((['*'], ['a*']), (['?*', '.b*'], ['*a']), (['*'], ['.*']), (['[!x]*'], ['.a']), (['@(*)'], ['*b']), (['*', '*/*'] if mode == 'gl' else ['*'], ['b*'])):
            for order in (inc + ['!' + e for e in exc], ['!' + e for e in exc] + inc):
                litems.append((mode, 'hidden_list_order', E | Nf, (order, None), inc, exc, False))
                litems.append((mode, 'hidden_split_order', E | Nf | SP, ('|'.join(order), None), inc, exc, False))
            litems.append((mode, 'hidden_exclude_kw', E, (inc, exc), inc, exc, False))
            litems.append((mode, 'hidden_negateall', E | Nf | A, (['!' + e for e in exc], None), [], exc, True))
            litems.append((mode, 'hidden_minus', E | Nf | MN, (['-' + e for e in exc] + inc, None), inc, exc, False))
        litems.append((mode, 'hidden_brace', E | Nf | B, ('{!a,}*', None), ['*'], ['a*'], False))
    lres = common.pmap(c07.work, litems, ctx.workers, extra=(N, True))
    nl = 0
    for r in lres:
        nl += r['sat'] + r['unsat'] + r['unknown']
        st = r['status']
        mode, form, flags, lhs, incs, excs, neg_all = r['item']
        if st in ('ok', 'compile_raises', 'translate_len'):
            continue
        if st != 'differs':
            ctx.inconclusive.append({'why': 'C03 list obligation: ' + st, 'item': r['item'], 'detail': r.get('exc')})
            continue
        pats, excl = lhs
        kw = {'flags': flags}
        if excl is not None:
            kw['exclude'] = excl
        common.confirm(ctx, {'describe': f'C03 {form}: on the hidden name {r["witness"]!r} the list {pats!r} (exclude={excl!r}) does not behave as its inclusions without '
                                         f'DOTGLOB and its exclusions with DOTGLOB',
                             'steps': [{'as': 'lhs', 'call': 'engine.replayfn.matcher_accepts', 'args': [mode, pats, r['witness'], kw]},
                                       {'as': 'rhs', 'call': 'engine.replayfn.decomposed_accepts', 'args': [mode, incs, excs, r['witness'], c07.singles_flags(mode, flags), bool(neg_all)]}],
                             'assert': 'lhs == rhs'})
    ctx.coverage['hidden_list_obligations'] = {'items': len(litems), 'queries': nl}
    ctx.coverage['evaluations'] = ctx.coverage.get('evaluations', 0) + nl
    match_cov = dict(ctx.coverage)
    # walk side (E3): glob() / WcMatch results on symbolic trees containing dot entries and hidden links
    from engine import fsdriver
    from props import c05, c14
    ctx.coverage = {}
    fsdriver.run_property(ctx, walk_combos(ctx), 'c05_classify', 3000 if ctx.quick else 20000, describe_walk,
                          known_from=('C05',))
    walk_cov = ctx.coverage
    ctx.coverage = match_cov
    ctx.coverage['evaluations'] += walk_cov['evaluations']
    ctx.coverage['distinct_nontrivial'] += walk_cov['distinct_nontrivial']
    ctx.coverage['walk_side'] = {k: walk_cov[k] for k in ('evaluations', 'distinct_nontrivial', 'combos', 'solver_calls', 'solver_time_s', 'known_region_hits',
                                                          'combos_not_exhausted_within_path_cap', 'traces_validated_against_impl', 'samples')}
    ctx.coverage['exhaustive'] = ctx.coverage.get('exhaustive', True) and walk_cov.get('exhaustive', True)


def describe_walk(p):
    from props import c05, c13, c14
    if len(p) == 2:
        return c05.describe(p)
    if len(p) == 5 and isinstance(p[3], int):
        return c13.describe(p)
    return c14.describe(p)


def walk_combos(ctx):
    from wcmatch import glob as G, wcmatch as W
    from props.c05 import seg, word, GS2, GS3, SL
    from engine.gen import lit, Q, STAR
    from engine import gen
    S, L, F, D, E, MB, SD, NDD = G.GLOBSTAR, G.GLOBSTARLONG, G.FOLLOW, G.DOTGLOB, G.EXTGLOB, G.MATCHBASE, G.SCANDOTDIR, G.NODOTDIR
    g = lambda kind, *alts: ('grp', kind, tuple(tuple(a) for a in alts))
    asts = [(seg(STAR),), (GS2,), (GS2, SL, word('x')), (GS2, SL, seg(STAR)), (seg(STAR), SL, word('x')), (seg(Q, STAR),), (seg(gen.cls(1), STAR),), (seg(gen.cls(6), STAR),),
            (seg(lit('.'), STAR),), (GS2, SL, seg(lit('.'), STAR)), (seg(lit('.'), STAR), SL, seg(STAR)), (word('x'),), (seg(STAR, lit('x')),), (seg(g('@', [STAR])),),
            (seg(('neg', ((lit('a'),),))),), (word('a'), SL, seg(STAR)), (word('a'), SL, GS2), (GS3, SL, word('x')), (seg(STAR), SL, seg(STAR)), (seg(lit('.'), lit('d')), SL, seg(STAR)),
            (GS2, SL, word('.d'), SL, word('x')), (word('.L'), SL, seg(STAR)), (seg(STAR), SL, word('..'), SL, seg(STAR)) if False else (word('a'), SL, seg(lit('.'), STAR))]
    fsets = [S | E, S | E | F, S | E | D, S | E | MB, S | E | MB | F, L | E, L | E | F | MB, S | E | SD, S | E | D | SD, S | E | NDD | D]
    out = []
    for k, ast in enumerate(asts):
        for f in (fsets if not ctx.quick else [fsets[0], fsets[1], fsets[2 + k % (len(fsets) - 2)], fsets[4]]):
            for t in ('hid', 'hid2', 'dotlink', 'flat'):
                out.append(('c05', t, (ast, f)))
    # exclusion patterns (NEGATE / exclude=) always behave as if DOTGLOB were set - also in the walker
    N = G.NEGATE
    for inc in (['.*'], ['.d/*', 'a/.*'], ['**/.*'], ['*', '.*'], ['.h', 'a/.y']):
        for ex in (['*'], ['**/x'], ['*/x'], ['**/*'], ['.*/'], ['?h']):
            for fl in (S, S | D):
                for t in ('hid', 'hid2', 'dotlink', 'flat'):
                    out.append(('c13', t, (list(inc), tuple(inc), tuple(ex), fl, True)))
                    out.append(('c13', t, (list(inc) + ['!' + e for e in ex], tuple(inc), tuple(ex), fl | N, False)))
    R, H, SY = W.RECURSIVE, W.HIDDEN, W.SYMLINKS
    for c in [(('*',), (), (), (), R), (('*',), (), (), (), R | SY), (('.*',), (), (), (), R), (('.*',), (), (), (), R | H), (('x',), (), (), (), R | SY),
              (('*',), (), ('a',), (), R | SY), ((), (), (), (), R), ((), ('x',), (), (), R | SY)]:
        for t in ('hid', 'hid2', 'dotlink', 'flat'):
            out.append(('c14', t, c))
    return out

"""C03 - hidden names and the special directories are never matched by wildcards (E1 part: match side).

Same spec/impl obligations as C01/C02 but on the complementary domain: names/paths that DO contain a segment
beginning with '.' (without DOTMATCH/DOTGLOB) or a segment that is exactly . or .. (with DOTGLOB)."""
from __future__ import annotations
import random

from engine import common, gen, e1, speccheck
from props.c01 import summarise

LEVEL = 'model_checking'


def build_items(ctx, rnd):
    from wcmatch import fnmatch as F, glob as G
    items = []
    segs = gen.segment_pool(ctx.tier, rnd, ext=True, budget=2000 if ctx.quick else 20000)
    for k, nodes in enumerate(segs):
        items.append(('fn', nodes, F.EXTMATCH, 'hidden'))
        if k % 5 == 0:
            items.append(('fn', nodes, F.EXTMATCH | F.IGNORECASE, 'hidden'))
        # the same single segment in glob mode: leading dot and the . / .. rule
        gi = (('seg', nodes),)
        items.append(('gl', gi, G.EXTGLOB, 'hidden'))
        items.append(('gl', gi, G.EXTGLOB | G.DOTGLOB, 'hidden'))
        if k % 3 == 0:
            items.append(('gl', gi, G.EXTGLOB | G.NODOTDIR | (G.DOTGLOB if k % 2 else 0), 'hidden'))
            items.append(('gl', gi, G.EXTGLOB | G.MATCHBASE | G.GLOBSTAR, 'hidden'))
    E, D, S, L, MB, ND, NDD = G.EXTGLOB, G.DOTGLOB, G.GLOBSTAR, G.GLOBSTARLONG, G.MATCHBASE, G.NODIR, G.NODOTDIR
    fs = [E | S, E | S | D, E | S | NDD, E | S | D | NDD, E | S | MB, E | L | D, E | S | ND, E]
    paths = gen.path_pool(ctx.tier, rnd, ext=True, budget=None if ctx.quick else 30000)
    for k, ast in enumerate(paths):
        if ctx.quick:
            chosen = [fs[0], fs[1], fs[2 + k % (len(fs) - 2)]]
        else:
            chosen = [fs[0], fs[1], fs[2 + k % (len(fs) - 2)], fs[2 + (k + 3) % (len(fs) - 2)]]
        for f in chosen:
            items.append(('gl', ast, f, 'hidden'))
    return items


def run(ctx):
    rnd = random.Random(ctx.seed * 7919 + 3)
    N = 6 if ctx.quick else 8
    live = common.check_known_witnesses(ctx)
    # deviations listed under C01/C02 (not dot-related) are excluded from C03's domain, not reported as C03 findings
    live |= common.check_known_witnesses(ctx, 'C01', report=False) | common.check_known_witnesses(ctx, 'C02', report=False)
    items = build_items(ctx, rnd)
    results = common.pmap(speccheck.obligation, items, ctx.workers, extra=(N, live))
    summarise(ctx, results, N, live, 'gl')

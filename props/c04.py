"""C04 - globmatch with REALPATH matches exactly what glob globs (E3 symfs, metamorphic between two real code paths)."""
from __future__ import annotations
import random

from engine import common, fsdriver, symfs, e1

LEVEL = 'model_checking'


def combos(ctx, rnd):
    from wcmatch import glob as G
    S, L, F, D, E, MB, ND, I, N = G.GLOBSTAR, G.GLOBSTARLONG, G.FOLLOW, G.DOTGLOB, G.EXTGLOB, G.MATCHBASE, G.NODIR, G.IGNORECASE, G.NEGATE
    pats = [('**', S), ('**/x', S), ('*/x', 0), ('**/', S), ('a/**', S), ('*', 0), ('**/*', S | D), ('**', S | F), ('L/*', 0), ('***/x', L), ('**/x', S | MB),
            ('x', MB), ('x', MB | S | F), ('*', ND), ('**', S | ND), ('a/*', 0), ('a/', 0), ('*/', 0), ('.*', 0), ('.*/x', 0), ('**/.*', S), ('**', S | D),
            ('[aA]*', I), ('A/x', I), ('up', I), ('?(a)*', E), ('!(a)', E), ('@(a|L)/*', E), ('**/@(x|d)', S | E), ('a/**/x', S), ('**/d/**', S),
            ('a/*/x', 0), ('*/*/', 0), ('**/x/', S), ('a/../a/x', 0), ('./a/x', 0), ('a//x', 0), ('**/**/x', S), ('***', L), ('***/', L), ('**/d/x', S | F),
            ('**/*', S | D | F), ('*/**', S), ('.d/**', S), ('**/.d/x', S), ('**/x', S | D),
            ('**/c/**', S), ('**/c/**/y', S), ('**/x/**', S), ('L/**/x/**', S), ('**/c/**', S | F), ('***/c/**', L), ('**/c/***', L), ('**/f', S), ('**/lf', S),
            ('ld/*', 0), ('**/d/*', S), ('*/f', 0), ('**/r/**/x', S), ('**/**', S), ('r/**/c/**', S),
            # separators written with an escape: the walker splits on them, the matcher parses them inside one regex
            ('a\\/*', 0), ('a\\/x', 0), ('*\\/x', 0), ('**\\/x', S), ('a\\/?*', 0), ('a\\/[!b]*', 0), ('.d\\/*', 0), ('a\\/**', S), ('a\\/.*', 0), ('a\\/', 0)]
    lists = [(['*'], 0, ['*/']), (['**'], S, ['**/']), (['*', 'a/*'], 0, ['a/']), (['**'], S, ['*/d/']), (['*'], N, None) if False else (['*', '!*/'], N, None),
             (['.*', '.d/*'], 0, ['*']), (['.d/*'], S, ['**/x']), (['a/.*', '**/x'], S, ['**/.y']), (['**/.*'], S | D, ['**/x']), (['.d/x'], S, ['*/x']),
             (['*', '!a'], N, None), (['**'], S, ['**/x']),
             # exclusions alone: NEGATEALL supplies the implicit match-everything inclusion, with and without GLOBSTAR from the caller
             (['!x'], N | G.NEGATEALL, None), (['!a/*'], N | G.NEGATEALL, None), (['!**/x'], N | G.NEGATEALL | S, None), (['!*/'], N | G.NEGATEALL, None),
             (['!x', '!a'], N | G.NEGATEALL | D, None), (['!x'], N, None), (['a/*', 'b/*'], 0, None), (['**', '!**/d/**'], S | N, None), (['*'], 0, ['.*']), (['**/x'], S, ['a/**'])]
    names = list(symfs.templates())
    out = []
    quick_t = ['flat', 'nest', 'link1', 'link2', 'hid', 'case', 'sib', 'dotlink', 'hid2']
    for k, (p, f) in enumerate(pats):
        ts = names
        for t in ts:
            out.append(('c04', t, (p, f, None, 'root_dir')))
        out.append(('c04', 'link1', (p, f, None, 'dir_fd' if k % 2 else 'cwd')))
    # every pattern under further flag sets (the statement quantifies over flag sets, the list above fixes one per pattern)
    FP = [S, L, S | F, L | F, S | MB, L | MB, S | MB | F, L | MB | F, S | D, S | D | MB, S | ND, S | E, L | D, MB, MB | D, S | I, S | G.MARK, L | F | D | MB]
    small = ['nest', 'link1', 'hid', 'linkfile', 'sib', 'dotlink']
    for k, (p, f) in enumerate(pats):
        if ctx.quick:
            fsel = rnd.sample(FP, 2)
            for f2 in fsel:
                out.append(('c04', rnd.choice(small), (p, f2, None, 'root_dir')))
        else:
            for f2 in FP:
                for t in small:
                    out.append(('c04', t, (p, f2, None, 'root_dir')))
    for k, (p, f, ex) in enumerate(lists):
        for t in (['nest', 'link1', 'hid', 'hid2', 'linkfile', 'flat'] if ctx.quick else names):
            out.append(('c04', t, (p, f, ex, 'root_dir')))
            if k % 3 == 0:
                out.append(('c04', t, (p, f, ex, 'dir_fd')))
    return out


def describe(params):
    from wcmatch import glob as G
    p, f, ex, via = params
    return f'patterns={p!r} flags={e1.flagnames("gl", f)} exclude={ex!r} root via {via}'


def run(ctx):
    rnd = random.Random(ctx.seed * 7919 + 4)
    # C03's and C06's listed findings have a footprint here too (hidden names under MATCHBASE + `**`; adjacent globstar kinds): stated exclusions
    fsdriver.run_property(ctx, combos(ctx, rnd), 'c04_classify', 4000 if ctx.quick else 60000, describe, known_from=('C03', 'C06'), own=True)
    ctx.coverage['functions_encoded'] = ['glob.Glob (walker) and _wcmatch._Match (REALPATH matching) executed natively over the symbolic os layer']

"""C05 - glob returns exactly the paths the pattern denotes on the real tree (E3 symfs + independent reference walk).

The Bash 5.2 clause is NOT decided here (an external process is not a function of solver variables): see DESIGN.md."""
from __future__ import annotations
import random

from engine import common, fsdriver, symfs, e1, gen
from engine.gen import lit, Q, STAR

LEVEL = 'model_checking'
SL = ('sep', '/')


def seg(*nodes):
    return ('seg', tuple(nodes))


def word(s):
    return seg(*[lit(c) for c in s])


GS2, GS3 = ('gs', 2), ('gs', 3)


def pattern_asts():
    g = lambda kind, *alts: ('grp', kind, tuple(tuple(a) for a in alts))
    neg = lambda *alts: ('neg', tuple(tuple(a) for a in alts))
    A = [
        (seg(STAR),), (word('a'), SL, seg(STAR)), (seg(STAR), SL, word('x')), (GS2,), (GS2, SL, word('x')), (word('a'), SL, GS2), (GS2, SL), (seg(STAR), SL),
        (seg(lit('.'), STAR),), (seg(lit('.'), STAR), SL, word('x')), (GS2, SL, seg(lit('.'), STAR)), (seg(Q),), (seg(gen.cls(0)),), (word('a'), SL, word('.'), SL, word('x')),
        (word('a'), SL, word('..'), SL, word('a'), SL, word('x')), (word('.'), SL, word('a')), (word('a'), SL, word('..'), SL, seg(STAR)),
        (seg(g('@', [lit('a')], [lit('b')])), SL, seg(STAR)), (seg(neg([lit('a')])),), (seg(g('?', [lit('a')]), STAR),), (seg(g('*', [lit('x')], [lit('y')])),),
        (seg(g('+', [lit('a')], [lit('L')])), SL, word('x')), (GS2, SL, word('d'), SL, GS2), (word('a'), SL, GS2, SL, word('x')), (GS2, SL, GS2, SL, word('x')),
        (GS3,), (GS3, SL, word('x')), (word('L'), SL, GS2), (GS2, SL, word('L'), SL, seg(STAR)), (word('x'),), (seg(STAR, lit('x')),), (word('L'), SL, seg(STAR)),
        (word('a'), SL), (word('f'), SL, GS2), (GS2, SL, word('x'), SL), (seg(STAR), SL, seg(STAR)), (seg(STAR), SL, seg(STAR), SL), (word('.d'), SL, seg(STAR)),
        (GS2, SL, word('.d'), SL, word('x')), (word('a'), SL, SL, word('x')), (seg(lit('A')),), (word('up'),), (word('a'), SL, word('X')),
        (GS2, SL, word('c'), SL, GS2), (word('r'), SL, GS2, SL, word('y')), (GS2, SL, word('lf')), (word('ld'), SL, seg(STAR)), (word('d'), SL, seg(Q, Q)),
        (word('d'), SL), (seg(lit('d'), STAR), SL), (seg(Q), SL), (word('d'),), (word('f'),), (SL, word('a')) if False else (word('x'), SL),
        (word('a'), SL, seg(lit('.', True), lit('.', True)), SL, seg(STAR)), (word('a'), SL, seg(lit('.'), lit('.', True)), SL, word('a'), SL, word('x')),
        (word('a'), SL, seg(lit('.', True)), SL, word('x')), (seg(STAR), SL, seg(lit('.', True), lit('.', True)), SL, seg(STAR)),
        (word('a'), SL, GS2, SL, seg(lit('.', True), lit('.')), SL, seg(STAR)),
        (word('a'), SL, seg(g('@', [lit('.'), lit('.')])), SL, seg(STAR)), (word('Data'), SL, seg(STAR)), (word('data'), SL, seg(STAR)), (word('DATA'), SL, seg(STAR)),
        (word('p'), SL, seg(STAR), SL, word('f')), (seg(lit('a'), lit('\\', True), lit('b')),), (seg(lit('a'), lit('*', True), lit('b')),),
        (seg(gen.cls(1), STAR),), (GS2, SL, seg(neg([lit('x')]))), (seg(lit('.', True), lit('h')),), (seg(gen.cls(6), STAR),), (seg(STAR, Q),),
    ]
    return A


def combos(ctx, rnd):
    from wcmatch import glob as G
    S, L, F, D, E, MB, ND, I, SD, NDD, MK = (G.GLOBSTAR, G.GLOBSTARLONG, G.FOLLOW, G.DOTGLOB, G.EXTGLOB, G.MATCHBASE, G.NODIR, G.IGNORECASE, G.SCANDOTDIR,
                                             G.NODOTDIR, G.MARK)
    fsets = [S | E, S | E | D, S | E | SD, S | E | D | SD, S | E | NDD, S | E | MB, S | E | F, L | E, S | E | I, S | E | MK, E, S | E | ND, L | E | F | MB]
    names = list(symfs.templates())
    out = []
    for k, ast in enumerate(pattern_asts()):
        fl = [fsets[0], fsets[1]] + [fsets[2 + (k + j) % (len(fsets) - 2)] for j in range(2 if ctx.quick else len(fsets) - 2)]
        units = [x for x in ast if x[0] != 'sep']
        if len(units) == 1:
            fl += [f for f in (S | E | MB, E | MB, L | E | F | MB) if f not in fl]      # MATCHBASE only concerns (nearly) slash-less patterns
        for f in fl:
            ts = names if not ctx.quick else [names[(k + j) % len(names)] for j in range(5)]
            if len(units) == 1 and f & MB and 'same' not in ts:
                ts = ts + ['same', 'nest']
            for t in ts:
                out.append(('c05', t, (ast, f)))
    return out


def describe(params):
    ast, f = params
    return f'pattern={gen.render_path(ast)!r} flags={e1.flagnames("gl", f)}'


def run(ctx):
    rnd = random.Random(ctx.seed * 7919 + 5)
    fsdriver.run_property(ctx, combos(ctx, rnd), 'c05_classify', 4000 if ctx.quick else 60000, describe)
    ctx.coverage['functions_encoded'] = ['glob.Glob walker (_glob/_glob_dir/_iter/_get_starting_paths) executed natively over the symbolic os layer; oracle engine/refwalk.ref_glob']
    ctx.coverage['outside_claim'] = ctx.coverage.get('outside_claim', []) + ['the Bash 5.2 comparison clause (external process; not decided)']

"""C06 - `**` does not traverse symlinked directories unless asked; glob terminates (E3 symfs, listing monitors)."""
from __future__ import annotations
import random

from engine import common, fsdriver, symfs, e1, gen
from props.c05 import seg, word, GS2, GS3, SL
from engine.gen import lit, Q, STAR

LEVEL = 'model_checking'


def pattern_asts():
    return [(GS2,), (GS2, SL, word('x')), (word('a'), SL, GS2), (GS2, SL), (GS2, SL, seg(STAR)), (word('a'), SL, GS2, SL, word('x')), (GS2, SL, word('d'), SL, GS2),
            (GS3,), (GS3, SL, word('x')), (word('L'), SL, GS2), (GS2, SL, word('L'), SL, seg(STAR)), (word('L'), SL, seg(STAR)), (seg(STAR), SL, GS2),
            (GS2, SL, word('c'), SL, GS2), (GS3, SL, word('c'), SL, GS2), (GS2, SL, word('c'), SL, GS3), (word('r'), SL, GS2, SL, word('y')), (GS2, SL, word('b'), SL, GS2),
            (GS2, SL, word('up'), SL, seg(STAR)), (word('x'),), (seg(STAR),), (GS2, SL, seg(lit('.'), STAR)), (word('.L'), SL, GS2), (GS2, SL, word('.d'), SL, seg(STAR)),
            (word('ld'), SL, GS2), (GS2, SL, word('f')), (GS2, SL, GS2, SL, word('x')), (word('a'), SL, word('L'), SL, GS2), (word('a'), SL, word('L2') if False else word('L'), SL, seg(STAR))]


def combos(ctx, rnd):
    from wcmatch import glob as G, wcmatch as W
    S, L, F, D, E, MB = G.GLOBSTAR, G.GLOBSTARLONG, G.FOLLOW, G.DOTGLOB, G.EXTGLOB, G.MATCHBASE
    fsets = [S, S | D, L, S | MB, L | F, L | F | MB, S | F, L | D]
    linky = ['link1', 'link2', 'hid', 'deep', 'sib', 'dotlink', 'twostar', 'linkfile']
    out = []
    for k, ast in enumerate(pattern_asts()):
        for f in (fsets if not ctx.quick else [fsets[0], fsets[2], fsets[1 + (k % (len(fsets) - 1))], fsets[3]]):
            for t in linky:
                out.append(('c06', t, (ast, f)))
    # REALPATH globmatch obeys the same rule (metamorphic check of C04 on globstar patterns mixing ** and ***)
    for p, f in [('***/c/**', L), ('**/c/***', L), ('***/r/**/y', L), ('***/a/**/x', L), ('**/b/***/x', L), ('***/**', L), ('**/***', L), ('***/c/**/y', L | F),
                 ('**/x', S), ('**/x', S | F), ('**/c/**', S), ('a/**/up/**', S), ('***/up/**', L)]:
        for j, t in enumerate(linky):
            out.append(('c04', t, (p, f, None, 'root_dir')))
            # the same rule however the root is addressed (the symlink test has one branch per addressing mode)
            out.append(('c04', t, (p, f, None, 'dir_fd' if j % 2 == 0 or not ctx.quick else 'cwd')))
    for pat, fl in [('*', W.RECURSIVE), ('*', W.RECURSIVE | W.HIDDEN), ('x|y', W.RECURSIVE | W.HIDDEN), ('*', W.RECURSIVE | W.SYMLINKS | W.HIDDEN),
                    ('**/x', W.RECURSIVE | W.FILEPATHNAME | W.GLOBSTAR | W.HIDDEN)]:
        for t in linky:
            out.append(('c06_wcmatch', t, (pat, fl)))
    return out


def describe(params):
    if isinstance(params[0], tuple):
        return f'pattern={gen.render_path(params[0])!r} flags={e1.flagnames("gl", params[1])}'
    return f'pattern={params[0]!r} flags={params[1]:#x} {params[2:]}'


def run(ctx):
    rnd = random.Random(ctx.seed * 7919 + 6)
    fsdriver.run_property(ctx, combos(ctx, rnd), 'c06_classify', 4000 if ctx.quick else 60000, describe)
    ctx.coverage['functions_encoded'] = ['glob.Glob._glob_dir follow decision, _wcmatch._Match._fs_match symlink test, wcmatch.WcMatch._walk (os.walk followlinks) over the symbolic os layer']
    ctx.coverage['monitors'] = ['every os.scandir call recorded; a listing outside the reference walk that passes through a symlink is a violation',
                                'directory-listing budget (60 x slots) without FOLLOW/***/SYMLINKS = termination witness']

"""C07 - pattern lists, exclusions, SPLIT and BRACE decompose into single-pattern matches (E1, all real regexes).

LHS: the regexes the real matcher executes for the combined form (list + exclusions / inline negation / SPLIT / BRACE).
RHS: boolean combination of *single-pattern* real compilations:  OR(inclusions) AND NOT OR(exclusions compiled with
DOTMATCH forced).  z3 decides LHS xor RHS for all names up to N.  translate() list lengths are compared concretely.
"""
from __future__ import annotations
import itertools
import random
import z3

from engine import common, gen, e1
from engine.rxsmt import SymStr, RxEnc, NotEncodable, FALSE, OR, AND

LEVEL = 'model_checking'


def base_pools(ctx, rnd):
    fn = ['a', '*', '*.a', '?b', '[ab]', '[!a]*', 'a*b', '.*', '.a', '*a*', '@(a|b)', '?(a)b', '+(a|b)', '*(.a)', '!(a)', '!(a|b)c',
          '\\!a', '\\-a', '(a)', '\\(a\\)', 'a[|]b', '@(a|b|)', 'a\\|b', '[!|]', '\\!(a)', '-', '!', 'a!', 'b-', '[a-c]?', '\\a', '**',
          '@(a\\)|b)', '@(a|b\\|c)', '+([|]|a)', '']
    gl = ['a', '*', '**', '*/a', 'a/*', '**/a', 'a/**', '.*', '*/.a', 'a/', '*/', '**/', '@(a|b)/c', '!(a)', '!(a)/b', '?(a)b/*', '/a',
          'a//b', '[!a]*/?', '\\!a', '\\-a', '(a)', 'a[|]b', 'a\\|b', '@(a\\)|b)', '*/@(a|b\\|c)', '***/a', '.', '..', './a', '-', '!']
    if not ctx.quick:
        segs = gen.segment_pool('quick', rnd, ext=True)
        fn += [gen.render_nodes(s) for s in segs[::40]]
        paths = gen.path_pool('quick', rnd, ext=True)
        gl += [gen.render_path(p) for p in paths[::25]]
    return fn, gl


def singles_flags(mode, flags):
    m = e1.mod_of(mode)
    drop = m.NEGATE | m.NEGATEALL | m.SPLIT | m.BRACE | m.MINUSNEGATE
    return flags & ~drop


def work(item, N, hidden_only=False):
    """item = (mode, form, flags, lhs_args, inc_list, exc_list, expect_lengths)
       lhs_args = (patterns, exclude_kw); inc_list/exc_list = single pattern texts defining the RHS.
       hidden_only: restrict the names to those with a segment beginning with a dot (the C03 reading of the same obligation)."""
    mode, form, flags, lhs, incs, excs, neg_all = item
    m = e1.mod_of(mode)
    res = {'item': item, 'status': 'ok', 'sat': 0, 'unsat': 0, 'unknown': 0, 'solver_s': 0.0}
    pats, excl = lhs
    try:
        linc, lexc = e1.real_regexes(mode, pats, flags, excl)
    except Exception as ex:  # noqa: BLE001
        res['status'] = 'compile_raises'
        res['exc'] = type(ex).__name__
        return res
    try:
        tinc, texc = e1.real_translate(mode, pats, flags, excl)
        if (len(tinc), len(texc)) != (len(linc), len(lexc)):
            res['status'] = 'translate_len'
            res['lens'] = ((len(tinc), len(texc)), (len(linc), len(lexc)))
            return res
    except Exception as ex:  # noqa: BLE001
        res['status'] = 'compile_raises'
        res['exc'] = 'translate: ' + type(ex).__name__
        return res
    sf = singles_flags(mode, flags)
    dflag = m.DOTMATCH if mode == 'fn' else m.DOTGLOB
    nodir = getattr(m, 'NODIR', 0)
    try:
        single_inc = []
        for p in incs:
            if p == '' or p == b'':
                continue            # the empty pattern matches nothing
            single_inc.append(e1.real_regexes(mode, p, sf))
        single_exc = []
        for e in excs:
            if e == '':
                continue
            single_exc.append(e1.real_regexes(mode, e, (sf | dflag) & ~nodir)[0])
        if neg_all:
            star = '**' if mode == 'gl' else '**'
            gs = m.GLOBSTAR if mode == 'gl' else 0
            single_inc.append(e1.real_regexes(mode, star, sf | gs))
    except Exception as ex:  # noqa: BLE001
        res['status'] = 'single_raises'
        res['exc'] = repr(ex)
        return res
    try:
        sym = SymStr('s', N, False)
        enc = RxEnc(sym)
        lhs_f = enc.matcher(linc, lexc)
        rhs = FALSE
        for inc, exc in single_inc:
            rhs = OR(rhs, enc.matcher(inc, exc))
        for inc in single_exc:
            rhs = AND(rhs, z3.Not(enc.any_full(inc))) if rhs is not FALSE else rhs
        cons = enc.side_constraints() + [sym.len_ge(1), z3.Xor(lhs_f, rhs) if rhs is not FALSE else lhs_f]
        if hidden_only:
            from engine import spec as S
            cons.append(S.some_hidden_segment(sym, mode == 'gl'))
    except NotEncodable as ex:
        res['status'] = 'not_encodable'
        res['exc'] = str(ex)
        return res
    r, mdl, dt = e1.solve(cons)
    res[r] += 1
    res['solver_s'] += dt
    if r == 'sat':
        w = sym.eval(mdl)
        res['status'] = 'differs'
        res['witness'] = w
        res['lhs'] = e1.concrete_match(linc, lexc, w)
        return res
    if r != 'unsat':
        res['status'] = 'unknown'
        return res
    # twin: an accepted name of the LHS (unless its language is empty) reproduces concretely
    r2, mdl2, dt2 = e1.solve(enc.side_constraints() + [lhs_f])
    res['solver_s'] += dt2
    if r2 == 'sat':
        w = sym.eval(mdl2)
        res['acc'] = w
        if not e1.concrete_match(linc, lexc, w):
            res['status'] = 'encoder_mismatch'
            res['witness'] = w
    elif r2 != 'unsat':
        res['status'] = 'unknown'
    else:
        res['empty'] = True
    return res


def brace_cases():
    """(text, expansions) pairs with known Bash brace expansion."""
    return [
        ('{a,b}', ['a', 'b']), ('x{a,b}y', ['xay', 'xby']), ('a{1..3}', ['a1', 'a2', 'a3']), ('{a,b{c,d}}', ['a', 'bc', 'bd']),
        ('{a,b}*', ['a*', 'b*']), ('*.{a,b}', ['*.a', '*.b']), ('{a,b}{c,d}', ['ac', 'ad', 'bc', 'bd']), ('a{,b}', ['a', 'ab']),
        ('\\{a,b}', ['\\{a,b}']), ('{a}', ['{a}']), ('{a,b}|c', ['a|c', 'b|c']), ('@(a|{b,c})', ['@(a|b)', '@(a|c)']),
        ('{!a,b}', ['!a', 'b']), ('[{a,b}]', ['[a]', '[b]']), ('{a\\,b,c}', ['a\\,b', 'c']), ('{c..a}', ['c', 'b', 'a']),
    ]


# BRACE is applied before SPLIT: pieces of the expansions (a `|` inside a group is not a split point)
BRACE_SPLIT_PIECES = {'{a,b}|c': ['a', 'c', 'b', 'c'], '@(a|{b,c})': ['@(a|b)', '@(a|c)']}


def split_cases():
    """(joined text, pieces) - top-level unescaped | only."""
    return [
        ('a|b', ['a', 'b']), ('a|b|*.c', ['a', 'b', '*.c']), ('a[|]b|c', ['a[|]b', 'c']), ('@(a|b)|c', ['@(a|b)', 'c']),
        ('a\\|b|c', ['a\\|b', 'c']), ('@(a\\)|b)|c', ['@(a\\)|b)', 'c']), ('a||b', ['a', '', 'b']), ('|a', ['', 'a']), ('a|', ['a', '']),
        ('*(a|+(b|c))|d', ['*(a|+(b|c))', 'd']), ('[!|]|a', ['[!|]', 'a']), ('@(a|b', ['@(a', 'b']), ('[a|b', ['[a', 'b']),
        ('!(a|b)|c', ['!(a|b)', 'c']), ('a|!(b|c)d', ['a', '!(b|c)d']), ('?(a\\||b)|c', ['?(a\\||b)', 'c']), ('[]|]|a', ['[]|]', 'a']),
        ('@(a|[)|])|b', ['@(a|[)|])', 'b']), ('\\\\|a', ['\\\\', 'a']), ('@([|]|b)|c', ['@([|]|b)', 'c']),
    ]


def build_items(ctx, rnd):
    from wcmatch import fnmatch as F, glob as G
    fn, gl = base_pools(ctx, rnd)
    items = []
    for mode, pool, m in (('fn', fn, F), ('gl', gl, G)):
        E = m.EXTMATCH if mode == 'fn' else m.EXTGLOB
        D = m.DOTMATCH if mode == 'fn' else m.DOTGLOB
        base = E | (G.GLOBSTAR if mode == 'gl' else 0)
        # (without GLOBSTAR too: the implicit match-everything inclusion of NEGATEALL is `**` with GLOBSTAR forced, whatever the caller passed)
        variants = [base, base | D] + ([base | G.NODIR, E, E | D, E | G.GLOBSTARLONG] if mode == 'gl' else [])
        nq = 500 if ctx.quick else 5000
        for _ in range(nq):
            k = rnd.randint(1, 3)
            incs = [rnd.choice(pool) for _ in range(k)]
            excs = [rnd.choice(pool) for _ in range(rnd.randint(0, 2))]
            if rnd.random() < 0.2 and incs:
                incs.append(incs[0])                      # repetition
            fl = rnd.choice(variants)
            # exclude= form
            items.append((mode, 'exclude_kw', fl, (incs, excs if excs else None), incs, excs, False))
            # exclude= given TOGETHER with the NEGATE family of flags: the flags are switched off, a leading ! or - is then literal text
            if rnd.random() < 0.35:
                excs2 = [rnd.choice(['!a', '-a', '!*', '!', '-', '!(a)']) if rnd.random() < 0.6 else e for e in (excs or ['!a'])]
                incs2 = [rnd.choice(['!a', '-a', '*']) if rnd.random() < 0.3 else p for p in incs]
                nf = rnd.choice([m.NEGATE, m.NEGATE | m.MINUSNEGATE, m.NEGATE | m.NEGATEALL, m.NEGATE | m.MINUSNEGATE | m.NEGATEALL])
                items.append((mode, 'exclude_kw_with_negate_flags', fl | nf, (incs2, excs2), incs2, excs2, False))
            # inline NEGATE form with ! (skipping exclusions that would spell !( under EXTMATCH)
            if all(not e.startswith('(') for e in excs) and all(not p.startswith('!') or p.startswith('!(') for p in incs) and all(e for e in excs):
                mixed = incs + ['!' + e for e in excs]
                rnd.shuffle(mixed)
                if any(not x.startswith('!') or x.startswith('!(') for x in mixed):
                    items.append((mode, 'inline_negate', fl | m.NEGATE, (mixed, None), incs, excs, False))
            # inline MINUSNEGATE form with -
            if all(not p.startswith('-') for p in incs) and all(e for e in excs):
                mixed = incs + ['-' + e for e in excs]
                rnd.shuffle(mixed)
                items.append((mode, 'inline_minusnegate', fl | m.NEGATE | m.MINUSNEGATE, (mixed, None), incs, excs, False))
            # permutation
            perm = incs[::-1]
            items.append((mode, 'permutation', fl, (perm, excs[::-1] if excs else None), incs, excs, False))
            # exclusions alone
            if excs and all(not e.startswith('(') and e for e in excs):
                only = ['!' + e for e in excs]
                items.append((mode, 'exclusions_alone', fl | m.NEGATE, (only, None), [], excs, False))
                items.append((mode, 'exclusions_alone_negateall', fl | m.NEGATE | m.NEGATEALL, (only, None), [], excs, True))
        # `!(`-initial patterns are extglobs, not negations, under EXTMATCH; but `-(`... is a negation under MINUSNEGATE
        for p in pool[:12]:
            items.append((mode, 'bang_paren_is_extglob', base | m.NEGATE, (['!(a)', p], None), ['!(a)', p], [], False))
            items.append((mode, 'minus_paren_is_negation', base | m.NEGATE | m.MINUSNEGATE, ([p, '*', '-(a)'], None), [p, '*'], ['(a)'], False))
            items.append((mode, 'bang_not_negation_under_minusnegate', base | m.NEGATE | m.MINUSNEGATE, (['!a', p], None), ['!a', p], [], False))
            items.append((mode, 'escaped_bang', base | m.NEGATE, (['\\!a', p], None), ['\\!a', p], [], False))
            items.append((mode, 'no_negate_flag', base, (['!a', p], None), ['!a', p], [], False))
        # SPLIT
        for joined, pieces in split_cases():
            for fl in variants[:2]:
                items.append((mode, 'split', fl | m.SPLIT, (joined, None), pieces, [], False))
            ok = pieces[0] and not pieces[0].startswith('(') and not any(p.startswith('!') and not p.startswith('!(') for p in pieces[1:])
            if ok:
                items.append((mode, 'split_with_negate', base | m.SPLIT | m.NEGATE, ('*|!' + joined, None), ['*'] + pieces[1:], [pieces[0]], False))
        # BRACE (expansion itself is bracex's; checked: applied, before splitting, to the right text)
        for text, exp in brace_cases():
            if text in BRACE_SPLIT_PIECES:
                items.append((mode, 'brace_then_split', base | m.BRACE | m.SPLIT, (text, None), BRACE_SPLIT_PIECES[text], [], False))
                continue
            if any(x.startswith('!') for x in exp):
                items.append((mode, 'brace_negate', base | m.BRACE | m.NEGATE, (['*', text], None), ['*'] + [x for x in exp if not x.startswith('!')],
                              [x[1:] for x in exp if x.startswith('!')], False))
                continue
            items.append((mode, 'brace', base | m.BRACE, (text, None), exp, [], False))
            items.append((mode, 'brace_off', base, (text, None), [text], [], False))
    return [it for it in items if it is not None]


def walk_side(ctx):
    """E3: the same decomposition law where the matcher consults the file system (REALPATH normalises directory names before it
    evaluates inclusions AND exclusions) and in glob() itself, on symbolic trees."""
    from engine import fsdriver
    from wcmatch import glob as G
    S = G.GLOBSTAR | G.EXTGLOB
    cases = [(('*',), ('*/',), 0), (('**',), ('*/',), S), (('**',), ('**/x',), S), (('*', '*/*'), ('a',), 0), (('*',), ('.*',), 0), (('**',), ('**/.*',), S),
             (('*', '.*'), ('[a-c]*/',), 0), (('**/',), ('a/',), S), (('**',), ('a', '*/x/'), S | G.DOTGLOB), (('@(a|b)', 'x'), ('!(a)',), S), (('*/x', 'a'), ('*/*/',), 0),
             (('**',), ('a/**',), S), (('*',), ('*',), G.NODIR), (('**',), ('**/',), S | G.MARK)]
    ts = ['flat', 'nest', 'hid', 'link1'] if ctx.quick else ['flat', 'nest', 'hid', 'hid2', 'link1', 'link2', 'same', 'dirsonly', 'deep']
    combos = [('c07fs', t, c) for c in cases for t in ts]
    saved = ctx.coverage
    ctx.coverage = {}
    fsdriver.run_property(ctx, combos, None, 3000 if ctx.quick else 60000, lambda p: f'inclusions={list(p[0])} exclusions={list(p[1])} flags={p[2]:#x}', known_from=('C07',))
    walk = ctx.coverage
    ctx.coverage = saved
    return walk


def run(ctx):
    rnd = random.Random(ctx.seed * 7919 + 7)
    N = 6 if ctx.quick else 8
    common.check_known_witnesses(ctx)
    items = build_items(ctx, rnd)
    results = common.pmap(work, items, ctx.workers, extra=(N,))
    q = {'sat': 0, 'unsat': 0, 'unknown': 0}
    solver_s = 0.0
    distinct = set()
    forms = {}
    samples = []
    for res in results:
        for k in q:
            q[k] += res[k]
        solver_s += res['solver_s']
        mode, form, flags, lhs, incs, excs, neg_all = res['item']
        st = res['status']
        if st == 'ok':
            forms[form] = forms.get(form, 0) + 1
            if not res.get('empty') or form.startswith('exclusions_alone'):
                distinct.add(repr((mode, form, flags, lhs)))
            if len(samples) < 8 and res.get('acc') and form not in [s_['form'] for s_ in samples]:
                samples.append({'mode': mode, 'form': form, 'flags': e1.flagnames(mode, flags), 'combined': lhs, 'inclusions': incs,
                                'exclusions': excs, 'verdict': 'unsat: equal languages', 'accepted': res.get('acc')})
            continue
        if st in ('unknown', 'not_encodable', 'encoder_mismatch', 'single_raises'):
            ctx.inconclusive.append({'why': st, 'item': res['item'], 'detail': res.get('exc') or res.get('witness')})
            continue
        if st == 'translate_len':
            pats, excl = lhs
            kw = {'flags': flags}
            if excl is not None:
                kw['exclude'] = excl
            rep = {'describe': 'C07: translate() list lengths differ from the compiled matcher',
                   'steps': [{'as': 'a', 'call': 'engine.replayfn.list_lengths', 'args': [mode, pats, kw]}],
                   'assert': 'a[0] == a[1]'}
            common.confirm(ctx, rep)
            continue
        if st == 'compile_raises':
            ctx.inconclusive.append({'why': 'combined form raises ' + res['exc'], 'item': res['item']})
            continue
        # differs: replay through the public API
        pats, excl = lhs
        kw = {'flags': flags}
        if excl is not None:
            kw['exclude'] = excl
        rep = {'describe': f'C07 {form}: combined form vs boolean combination of single-pattern matches on {res["witness"]!r}',
               'steps': [{'as': 'lhs', 'call': 'engine.replayfn.matcher_accepts', 'args': [mode, pats, res['witness'], kw]},
                         {'as': 'rhs', 'call': 'engine.replayfn.decomposed_accepts',
                          'args': [mode, incs, excs, res['witness'], singles_flags(mode, flags), bool(neg_all)]}],
               'assert': 'lhs == rhs'}
        common.confirm(ctx, rep)
    # E2: the include-any / exclude-none wrapper logic with symbolic regex verdicts (CrossHair)
    import os
    from engine import xh
    harness = os.path.join(common.VERIF, 'harness', 'xh_c07.py')
    xres = xh.run_all(harness, 200 if ctx.quick else 600, ctx.workers)
    for r in xres:
        if r['name'].startswith('twin'):
            if r['verdict'] != 'counterexample':
                ctx.inconclusive.append({'why': 'reachability twin of xh_c07 was not refuted', 'out': r['output'][-200:]})
        elif r['verdict'] == 'counterexample' and r['call']:
            val = xh.eval_call(harness, r['call'])[2]
            if val is False:
                common.confirm(ctx, {'describe': f'C07 include/exclude evaluation law violated: {r["call"]}',
                                     'steps': [{'as': 'ok', 'call': 'engine.replayfn.harness_call', 'args': ['xh_c07.py', r['call']]}], 'assert': 'ok == True'})
            else:
                ctx.inconclusive.append({'why': 'xh_c07 counterexample does not reproduce', 'call': r['call']})
        elif r['verdict'] != 'confirmed':
            ctx.inconclusive.append({'why': 'xh_c07 ' + r['verdict'], 'out': r['output'][-200:]})
    walk = walk_side(ctx)
    ctx.coverage['walk_side'] = {k: walk.get(k) for k in ('evaluations', 'distinct_nontrivial', 'combos', 'solver_calls', 'traces_validated_against_impl', 'samples')}
    ctx.coverage['crosshair_conditions'] = [{k: r[k] for k in ('name', 'verdict', 'time_s')} for r in xres]
    ctx.coverage.update({
        'evaluations': q['sat'] + q['unsat'] + q['unknown'] + (walk.get('evaluations') or 0),
        'distinct_nontrivial': len(distinct) + (walk.get('distinct_nontrivial') or 0),
        'rule': 'one obligation per (mode, form, flags, combined patterns): language of the real combined matcher == OR(single inclusions) AND NOT '
                'OR(single exclusions with DOTMATCH); non-trivial = combined language non-empty (or an exclusions-alone emptiness check)',
        'samples': samples, 'forms': forms, 'obligations': len(results), 'queries': q, 'solver_time_s': round(solver_s, 2),
        'bounds': {'name_length_max': N, 'lists': '<= 4 inclusions, <= 2 exclusions', 'brace': 'hand-listed brace texts with known expansions (bracex trusted)'},
        'functions_encoded': ['_wcparse.compile_pattern / translate list loops, is_negative, expand, WcSplit (executed concretely); executed regexes encoded'],
        'exhaustive': not ctx.inconclusive,
        'outside_claim': ['names longer than N', 'brace expansion semantics of bracex itself'],
    })
    ctx.assumptions += ['z3 QF_BV', 're._parser AST == what _sre executes', 'single-pattern compilations are the reference (their own meaning is C01/C02)']

"""C08 - translate returns regexes that mean exactly what match does (E1, differential, no spec).

Per (pattern list, exclusions, flags): run the real translate() and the real compile(); every translate regex
must re.compile; the solver decides for ALL names up to N whether the translate language (some include, no
exclude, non-empty) equals the language of the regexes the matcher executes.  Capture clause: number of
capturing groups == number of extended groups in the generator AST; in addition (semantic capture check) the
sub-regex wrapped by each capture group outside negation must have exactly the language of the matcher's
non-capturing counterpart at the same position (erasing the capture parentheses is language preserving is the
first query; here the groups' *own* languages are compared pairwise in opening order).
"""
from __future__ import annotations
import random
import re
import re._parser as sp
import re._constants as sc
import time
import z3

from engine import common, gen, e1, regions
from engine.rxsmt import SymStr, RxEnc, NotEncodable, FALSE, OR, AND

LEVEL = 'model_checking'


def flagsets(mode):
    m = e1.mod_of(mode)
    if mode == 'fn':
        E, D, I, C, N, W, U, S, B, A, M = (m.EXTMATCH, m.DOTMATCH, m.IGNORECASE, m.CASE, m.NEGATE, m.FORCEWIN, m.FORCEUNIX,
                                           m.SPLIT, m.BRACE, m.NEGATEALL, m.MINUSNEGATE)
        return [E, E | D, 0, E | I, E | W, E | N, E | S, E | N | A | D, E | B | S, E | U | C, E | N | M]
    E, D, G, L, MB, ND, N, W, U, NDD, S, A, I = (m.EXTGLOB, m.DOTGLOB, m.GLOBSTAR, m.GLOBSTARLONG, m.MATCHBASE, m.NODIR, m.NEGATE,
                                                m.FORCEWIN, m.FORCEUNIX, m.NODOTDIR, m.SPLIT, m.NEGATEALL, m.IGNORECASE)
    return [E | G, E | G | D, E, G | L | E, E | G | MB, E | G | ND, E | G | NDD, E | G | W, E | G | N, E | G | D | MB | L,
            E | G | I, E | N | A | G, E | S | G | U]


def ext_group_count(nodes):
    return gen.count_groups(nodes)


def capture_subregexes(parsed):
    """Capturing SUBPATTERN nodes of a parsed regex in opening order, with 'inside a look-ahead' marks."""
    out = []

    def walk(items, in_assert):
        for op, av in items:
            if op is sc.SUBPATTERN:
                g, _a, _d, p = av
                if g is not None:
                    out.append((g, p, in_assert))
                walk(p, in_assert)
            elif op is sc.BRANCH:
                for alt in av[1]:
                    walk(alt, in_assert)
            elif op in (sc.MAX_REPEAT, sc.MIN_REPEAT):
                walk(av[2], in_assert)
            elif op in (sc.ASSERT, sc.ASSERT_NOT):
                walk(av[1], True)

    walk(parsed, False)
    out.sort(key=lambda t: t[0])
    return out


def capture_spans(rx):
    """(index of '(', index of its ')') of every capturing group of a regex text, in opening order (a small scanner: escapes, bracket
    classes, `(?...` forms).  Validated per use against re.compile(rx).groups."""
    spans = []
    stack = []
    i, n = 0, len(rx)
    while i < n:
        c = rx[i]
        if c == '\\':
            i += 2
            continue
        if c == '[':
            i += 1
            if i < n and rx[i] == '^':
                i += 1
            if i < n and rx[i] == ']':
                i += 1
            while i < n and rx[i] != ']':
                i += 2 if rx[i] == '\\' else 1
            i += 1
            continue
        if c == '(':
            cap = not rx.startswith('(?', i) or rx.startswith('(?P<', i)
            if cap:
                spans.append([i, None])
                stack.append(len(spans) - 1)
            else:
                stack.append(None)
        elif c == ')':
            k = stack.pop()
            if k is not None:
                spans[k][1] = i
        i += 1
    return [tuple(x) for x in spans]


def mark_regex(rx, k):
    """The regex with literal markers put around the body of capturing group number k (0-based): `(<(?:body)>)`."""
    spans = capture_spans(rx)
    if len(spans) != re.compile(rx).groups or any(c is None for _o, c in spans):
        return None
    o, c = spans[k]
    return rx[:o + 1] + '<(?:' + rx[o + 1:c] + ')>' + rx[c:]


def render_marked(nodes, k, counter=None):
    """Pattern text of a node tuple with `<` `>` written around extended group number k (opening order, 0-based)."""
    counter = counter if counter is not None else [0]
    out = []
    for n in nodes:
        if n[0] == 'grp':
            mine = counter[0]
            counter[0] += 1
            body = n[1] + '(' + '|'.join(render_marked(a, k, counter) for a in n[2]) + ')'
            out.append('<' + body + '>' if mine == k else body)
        elif n[0] == 'neg':
            raise ValueError('negation')
        else:
            out.append(gen.render_nodes((n,)))
    return ''.join(out)


def render_path_marked(items, k):
    counter = [0]
    out = []
    for it in items:
        if it[0] == 'seg':
            out.append(render_marked(it[1], k, counter))
        else:
            out.append(gen.render_path((it,)))
    return ''.join(out)


def work_capture(item, N):
    """Capture clause, semantic part: translate(P) with markers around the body of capture group k must have the language of the
    real matcher for the pattern P with the same markers written around extended group k - for every name up to N."""
    mode, (ast, k), flags, _exclude, _ng = item
    N = min(N, 6)          # the marker relation doubles the alphabet-sensitive part of the formula: name bound 6 in both tiers (stated in evidence)
    base = mode[:2]
    if base == 'fn':
        text, marked = gen.render_nodes(ast), render_marked(ast, k)
    else:
        text, marked = gen.render_path(ast), render_path_marked(ast, k)
    res = {'item': (base, text, flags, None), 'capture': (k, marked), 'status': 'ok', 'queries': 0, 'solver_s': 0.0, 'sat': 0, 'unsat': 0, 'unknown': 0}
    try:
        tinc, texc = e1.real_translate(base, text, flags, None)
        minc, mexc = e1.real_regexes(base, marked, flags, None)
    except Exception as ex:  # noqa: BLE001
        res['status'] = 'translate_raises'
        res['exc'] = type(ex).__name__
        return res
    if len(tinc) != 1 or texc:
        res['status'] = 'not_encodable'
        res['exc'] = 'capture clause: translate returned %d inclusion regexes' % len(tinc)
        return res
    try:
        t2 = mark_regex(tinc[0], k)
    except (IndexError, re.error):
        t2 = None
    if t2 is None:
        res['status'] = 'not_encodable'
        res['exc'] = 'capture clause: group scanner disagrees with re.compile().groups on ' + tinc[0]
        return res
    try:
        pr = e1.Pair(N, False)
        ft = pr.matcher_fullmatch([t2], [])
        fm = pr.matcher(minc, mexc)
        r, w, dt = pr.differ(ft, fm)
    except NotEncodable as ex:
        res['status'] = 'not_encodable'
        res['exc'] = str(ex)
        return res
    res['queries'] += 1
    res['solver_s'] += dt
    res[r] += 1
    res['nontrivial'] = True
    if r == 'sat':
        res['status'] = 'capture_diff'
        res['witness'] = w
        return res
    if r != 'unsat':
        res['status'] = 'unknown'
        return res
    ra, wa, dt1 = pr.find(fm)
    res['queries'] += 1
    res['solver_s'] += dt1
    res['acc'] = wa
    if ra == 'unknown':
        res['status'] = 'unknown'
    elif wa is not None and (not e1.concrete_match(minc, mexc, wa) or re.fullmatch(t2, wa) is None):
        res['status'] = 'encoder_mismatch'
        res['witness'] = wa
    return res


def work(item, N):
    """One (mode, pats, flags, exclude, nodes-or-None) obligation."""
    mode, pats, flags, exclude, ngroups = item
    if mode in ('fncap', 'glcap'):
        return work_capture(item, N)
    res = {'item': (mode, pats, flags, exclude), 'status': 'ok', 'queries': 0, 'solver_s': 0.0, 'sat': 0, 'unsat': 0, 'unknown': 0}
    if mode == 'glcount':
        # capture clause only (REALPATH: the match equivalence is stated without it)
        res['item'] = ('gl', pats, flags, exclude)
        try:
            tinc, _ = e1.real_translate('gl', pats, flags, exclude)
            g = [re.compile(r).groups for r in tinc]
        except Exception as ex:  # noqa: BLE001
            res['status'] = 'translate_raises'
            res['exc'] = type(ex).__name__
            return res
        if g != [ngroups]:
            res['status'] = 'group_count'
            res['groups'] = (g[0] if g else None, ngroups)
        return res
    m = e1.mod_of(mode)
    try:
        tinc, texc = e1.real_translate(mode, pats, flags, exclude)
    except Exception as ex:  # noqa: BLE001
        res['status'] = 'translate_raises'
        res['exc'] = type(ex).__name__
        return res
    for r in tinc + texc:
        try:
            re.compile(r)
        except re.error:
            res['status'] = 'translate_uncompilable'
            res['regex'] = r
            return res
    try:
        minc, mexc = e1.real_regexes(mode, pats, flags, exclude)
    except Exception as ex:  # noqa: BLE001
        res['status'] = 'compile_raises'
        res['exc'] = type(ex).__name__
        return res
    isb = e1.is_bytes_regexes(tinc, texc)
    try:
        pr = e1.Pair(N, isb)
        ft = pr.matcher_fullmatch(tinc, texc)         # what the statement says a translate() result means
        fm = pr.matcher(minc, mexc)
        r, w, dt = pr.differ(ft, fm)
    except NotEncodable as ex:
        res['status'] = 'not_encodable'
        res['exc'] = str(ex)
        return res
    res['queries'] += 1
    res['solver_s'] += dt
    res[r] += 1
    res['nontrivial'] = not (tinc == minc and texc == mexc)
    if r == 'sat':
        res['status'] = 'lang_diff'
        res['witness'] = w
        res['t_accepts'] = None
        return res
    if r != 'unsat':
        res['status'] = 'unknown'
        return res
    # reachability twin: an accepted and a rejected name must exist (or the language is proven empty/full)
    ra, wa, dt1 = pr.find(fm)
    rr, wr, dt2 = pr.find(z3.Not(fm), [pr.sym.len_ge(1)])
    res['queries'] += 2
    res['solver_s'] += dt1 + dt2
    res['acc'] = wa
    res['rej'] = wr
    if ra == 'unknown' or rr == 'unknown':
        res['status'] = 'unknown'
        return res
    for wname, exp in ((wa, True), (wr, False)):
        if wname is not None:
            if e1.concrete_match(minc, mexc, wname) != exp:
                res['status'] = 'encoder_mismatch'
                res['witness'] = wname
                return res
    # capture clause
    if ngroups is not None and isinstance(pats, str) and exclude is None:
        if len(tinc) == 1:
            g = re.compile(tinc[0]).groups
            if g != ngroups:
                res['status'] = 'group_count'
                res['groups'] = (g, ngroups)
                res['acc'] = wa
                return res
    return res


def build_items(ctx, rnd):
    items = []
    quick = ctx.quick
    segs = gen.segment_pool(ctx.tier, rnd, ext=True, budget=1500 if quick else 12000)
    paths = gen.path_pool(ctx.tier, rnd, ext=True, budget=1200 if quick else 10000)
    from wcmatch import fnmatch as F, glob as G
    ffs = flagsets('fn')
    gfs = flagsets('gl')
    for k, nodes in enumerate(segs):
        text = gen.render_nodes(nodes)
        ng = None if regions.star_before_star_group(nodes) else gen.count_groups(nodes)
        fl = [ffs[0], ffs[1 + k % (len(ffs) - 1)]] if quick else [ffs[0], ffs[1], ffs[2 + k % (len(ffs) - 2)], ffs[2 + (k + 5) % (len(ffs) - 2)]]
        for f in fl:
            ext_on = bool(f & F.EXTMATCH) and not (f & (F.SPLIT | F.BRACE | F.NEGATE))
            items.append(('fn', text, f, None, ng if ext_on else (0 if not (f & (F.SPLIT | F.BRACE | F.NEGATE | F.EXTMATCH)) else None)))
        if k % 4 == 0:
            items.append(('gl', text, gfs[k % len(gfs)], None, None))
        if k % 9 == 0:
            items.append(('fn', text.encode('latin-1'), ffs[k % 3], None, None))
    for k, it in enumerate(paths):
        text = gen.render_path(it)
        fl = [gfs[0], gfs[1 + k % (len(gfs) - 1)]] if quick else [gfs[0], gfs[1], gfs[2 + k % (len(gfs) - 2)], gfs[2 + (k + 4) % (len(gfs) - 2)]]
        for f in fl:
            ng = None
            if (f & G.EXTGLOB) and not (f & (G.SPLIT | G.NEGATE)):
                ng = sum(gen.count_groups(x[1]) for x in it if x[0] == 'seg')
                if any(x[0] == 'seg' and regions.star_before_star_group(x[1]) for x in it):
                    ng = None
                if f & G.FORCEWIN and text[:1] in '/\\':
                    ng = None         # Windows mode may read the leading segments as a literal UNC prefix: groups there are plain text
            items.append(('gl', text, f, None, ng))
        if k % 9 == 0:
            items.append(('gl', text.encode('latin-1'), gfs[k % 3], None, None))
    # capture clause under every public flag of glob.translate, REALPATH included (the matcher's own globstar captures must not leak)
    RP = G.REALPATH
    for k, it in enumerate(paths[:: (5 if quick else 1)]):
        text = gen.render_path(it)
        if any(x[0] == 'seg' and regions.star_before_star_group(x[1]) for x in it):
            continue
        ng = sum(gen.count_groups(x[1]) for x in it if x[0] == 'seg')
        for f in (G.EXTGLOB | G.GLOBSTAR | RP, G.EXTGLOB | G.GLOBSTAR | RP | G.DOTGLOB | G.MATCHBASE, G.EXTGLOB | G.GLOBSTARLONG | RP | G.FOLLOW):
            items.append(('glcount', text, f, None, ng))
    # capture clause, semantic part (negation-free patterns, dot guards off so that a marker in front of a group changes nothing else)
    ncap = 0
    for k, nodes in enumerate(segs):
        ng = gen.count_groups(nodes)
        if not ng or gen.has_kind(nodes, 'neg') or regions.star_before_star_group(nodes):
            continue
        if quick and ncap % 3:
            ncap += 1
            continue
        ncap += 1
        for g in range(min(ng, 3)):
            items.append(('fncap', (nodes, g), F.EXTMATCH | F.DOTMATCH, None, None))
    for k, it in enumerate(paths):
        segs_ = [x[1] for x in it if x[0] == 'seg']
        ng = sum(gen.count_groups(x) for x in segs_)
        if not ng or any(gen.has_kind(x, 'neg') or regions.star_before_star_group(x) for x in segs_):
            continue
        if quick and ncap % 3:
            ncap += 1
            continue
        ncap += 1
        for g in range(min(ng, 3)):
            items.append(('glcap', (it, g), G.EXTGLOB | G.GLOBSTAR | G.DOTGLOB, None, None))
    # NODIR x Windows x bytes: the translate() text of the NODIR exclusion is a separate constant for each combination
    for k, it in enumerate(paths[:: (12 if quick else 2)]):
        text = gen.render_path(it)
        for f in (G.NODIR | G.FORCEWIN | G.EXTGLOB | G.GLOBSTAR, G.NODIR | G.EXTGLOB | G.GLOBSTAR, G.NODIR | G.FORCEWIN | G.DOTGLOB):
            items.append(('gl', text, f, None, None))
            items.append(('gl', text.encode('latin-1'), f, None, None))
    for t in ['a/..', 'a/.', '..', '.', 'a/', 'a', '*/..', '**', '*']:
        for f in (G.NODIR | G.FORCEWIN, G.NODIR, G.NODIR | G.FORCEWIN | G.GLOBSTAR | G.DOTGLOB):
            items.append(('gl', t, f, None, None))
            items.append(('gl', t.encode(), f, None, None))
            items.append(('fn', t, 0, None, None))
    # lists with exclusions (inline and exclude=)
    texts = [gen.render_nodes(n) for n in segs[:: max(1, len(segs) // (60 if quick else 400))]]
    ptexts = [gen.render_path(p) for p in paths[:: max(1, len(paths) // (60 if quick else 400))]]
    for k in range(len(texts) - 2):
        a, b, c = texts[k], texts[k + 1], texts[k + 2]
        items.append(('fn', [a, b], F.EXTMATCH, [c], None))
        items.append(('fn', [a, '!' + c, b], F.EXTMATCH | F.NEGATE, None, None))
        items.append(('fn', ['!' + c], F.EXTMATCH | F.NEGATE | F.NEGATEALL, None, None))
        items.append(('fn', a + '|' + b, F.EXTMATCH | F.SPLIT, [c], None))
        # exclude= together with the NEGATE family: the flags are dropped for both lists, a leading ! or - is literal text
        neg = [F.NEGATE, F.NEGATE | F.MINUSNEGATE, F.NEGATE | F.NEGATEALL][k % 3]
        items.append(('fn', [a, '*'], F.EXTMATCH | neg, ['!' + c if k % 2 else '-' + c, '!a'], None))
        items.append(('fn', ['!' + a, '*'], F.EXTMATCH | neg | F.DOTMATCH, [c], None))
    for k in range(len(ptexts) - 2):
        a, b, c = ptexts[k], ptexts[k + 1], ptexts[k + 2]
        items.append(('gl', [a, b], G.EXTGLOB | G.GLOBSTAR, [c], None))
        items.append(('gl', [a, '!' + c], G.EXTGLOB | G.GLOBSTAR | G.NEGATE, None, None))
        items.append(('gl', [a, '**'], G.EXTGLOB | G.GLOBSTAR | G.NEGATE | (G.MINUSNEGATE if k % 2 else 0), ['!' + c, '-' + c], None))
        items.append(('gl', ['!' + c], G.EXTGLOB | G.GLOBSTAR | G.NEGATE | G.NEGATEALL | G.NODIR, None, None))
    for t in gen.odd_patterns():
        items.append(('fn', t, F.EXTMATCH, None, None))
        items.append(('fn', t, F.EXTMATCH | F.DOTMATCH | F.IGNORECASE, None, None))
        items.append(('gl', t, G.EXTGLOB | G.GLOBSTAR, None, None))
        items.append(('gl', 'x/' + t + '/y', G.EXTGLOB | G.GLOBSTAR | G.DOTGLOB, None, None))
    return items


def classify_known(res):
    """Region predicates of listed known findings (DESIGN.md section 7)."""
    mode, pats, flags, exclude = res['item']
    if res['status'] in ('translate_uncompilable', 'compile_raises') and isinstance(pats, (str, bytes)):
        # C08-negneg: a top-level !( followed later by a non-negated group that itself contains !(
        if regions.negation_inside_group_after_negation(pats):
            return 'nested-negation-after-negation'
    return None


def run(ctx):
    rnd = random.Random(ctx.seed * 7919 + 8)
    N = 6 if ctx.quick else 8
    live = common.check_known_witnesses(ctx)
    items = build_items(ctx, rnd)
    t = time.time()
    results = common.pmap(work, items, ctx.workers, extra=(N,))
    q = {'sat': 0, 'unsat': 0, 'unknown': 0}
    solver_s = 0.0
    nontrivial = set()
    samples = []
    known_region_hits = 0
    ncapture = 0
    for res in results:
        for k in q:
            q[k] += res[k]
        solver_s += res['solver_s']
        st = res['status']
        mode, pats, flags, exclude = res['item']
        if res.get('nontrivial'):
            nontrivial.add(repr((res['item'], res.get('capture'))))
        if 'capture' in res:
            ncapture += 1
        if st == 'ok':
            if len(samples) < 6 and res.get('nontrivial'):
                samples.append({'mode': mode, 'patterns': pats, 'flags': e1.flagnames(mode, flags), 'exclude': exclude,
                                'verdict': 'unsat (languages equal for all names up to N)', 'accepted_witness': res.get('acc'),
                                'rejected_witness': res.get('rej')})
            continue
        if st == 'translate_raises':
            # documented errors are fine when both sides agree; checked by C10. Here: compile must raise too.
            try:
                e1.real_regexes(mode, pats, flags, exclude)
                agree = False
            except Exception as ex:  # noqa: BLE001
                agree = type(ex).__name__ == res['exc']
            if agree and res['exc'] in e1.DOCUMENTED:
                continue
        region = classify_known(res)
        if region and region in live:
            known_region_hits += 1
            continue
        if st in ('unknown', 'not_encodable', 'encoder_mismatch'):
            ctx.inconclusive.append({'why': st, 'item': res['item'], 'detail': res.get('exc') or res.get('witness')})
            continue
        # candidate violation -> replay through the public API
        kw = {'flags': flags}
        if exclude is not None:
            kw['exclude'] = exclude
        if st == 'lang_diff':
            rep = {
                'describe': f'translate() language differs from the matcher on name {res["witness"]!r}',
                'steps': [
                    {'as': 'm', 'call': 'engine.replayfn.matcher_accepts', 'args': [mode, pats, res['witness'], kw]},
                    {'as': 'tm', 'call': 'engine.replayfn.translate_accepts', 'args': [mode, pats, res['witness'], kw]},
                ],
                'assert': 'tm == m',
            }
        elif st in ('translate_uncompilable', 'compile_raises', 'translate_raises'):
            rep = {
                'describe': f'{st}: pattern must compile/translate to valid regexes',
                'steps': [{'as': 'ok', 'call': 'engine.replayfn.translate_and_compile_ok', 'args': [mode, pats, kw]}],
                'assert': 'ok == True',
            }
        elif st == 'capture_diff':
            k, marked = res['capture']
            rep = {
                'describe': f'capture group {k + 1} of translate({pats!r}) does not capture the text consumed by extended group {k + 1}: with markers around '
                            f'the group body the regex and the pattern {marked!r} disagree on {res["witness"]!r}',
                'steps': [{'as': 'v', 'call': 'engine.replayfn.capture_marker', 'args': [mode, pats, marked, k, res['witness'], kw]}],
                'assert': 'v[0] == v[1]',
            }
        elif st == 'group_count':
            rep = {
                'describe': f'capturing groups {res["groups"][0]} != extended groups in pattern {res["groups"][1]}',
                'steps': [{'as': 'g', 'call': 'engine.replayfn.group_count', 'args': [mode, pats, kw]}],
                'assert': f'g == [{res["groups"][1]}]',
            }
        else:
            ctx.inconclusive.append({'why': st, 'item': res['item']})
            continue
        common.confirm(ctx, rep)
    ctx.coverage.update({
        'evaluations': q['sat'] + q['unsat'] + q['unknown'],
        'distinct_nontrivial': len(nontrivial), 'capture_text_obligations': ncapture, 'capture_text_name_length_max': 6,
        'rule': 'one obligation per (mode, pattern list, flags, exclude); non-trivial = translate() text differs from the executed '
                'regex text (capture groups present), so the equality is not syntactic; evaluations = solver queries',
        'samples': samples,
        'obligations': len(items),
        'queries': q,
        'solver_time_s': round(solver_s, 2),
        'bounds': {'name_length_max': N, 'alphabet': 'all code points (str) / all bytes; SIGMA_I for case-insensitive str regexes'},
        'functions_encoded': ['wcmatch.fnmatch.translate', 'wcmatch.glob.translate', 'wcmatch.fnmatch.compile', 'wcmatch.glob.compile',
                              '_wcparse.WcParse.parse (executed concretely per pattern; its regex output encoded)'],
        'known_region_hits': known_region_hits,
        'exhaustive': not ctx.inconclusive,
        'outside_claim': ['names longer than N', 'patterns outside the generated pools', 'REALPATH'],
    })
    ctx.assumptions += ['z3 QF_BV decides the bounded formula', 're._parser.parse yields the AST the C engine executes',
                        'encoder validated per obligation by replaying an accepted and a rejected witness through re.fullmatch']

"""C09 - escape makes any string literal; non-magic patterns are literal (E1).

For every enumerated string s and flag subset: the regexes of the real compile(escape(s), flags) are encoded and z3 decides
that their language is exactly {s} closed under the mode's equivalences (case folding / separator spelling / duplicate and
trailing separators in path mode).  The closure is the literal-only instance of the path/name spec (engine/spec.py).
Converse: for every enumerated p with is_magic(p, flags) False, the same singleton check on compile(p, flags).
"""
from __future__ import annotations
import itertools
import os
import random
import z3

from engine import common, e1, spec as S
from engine.rxsmt import SymStr, RxEnc, NotEncodable, FALSE, OR, AND

LEVEL = 'model_checking'

ALPHABET = ['*', '?', '[', ']', '(', ')', '|', '{', '}', '!', '-', '~', '\\', '/', '.', '\n', 'a', 'B', '@', '+', ',', '^', '\xe9', ' ']


def flag_subsets(mode, quick, rnd):
    m = e1.mod_of(mode)
    if mode == 'fn':
        names = ['EXTMATCH', 'BRACE', 'SPLIT', 'NEGATE', 'MINUSNEGATE', 'NEGATEALL', 'DOTMATCH', 'RAWCHARS', 'IGNORECASE', 'FORCEWIN', 'FORCEUNIX', 'CASE']
    else:
        names = ['EXTGLOB', 'BRACE', 'SPLIT', 'NEGATE', 'MINUSNEGATE', 'NEGATEALL', 'GLOBTILDE', 'GLOBSTAR', 'DOTGLOB', 'NODOTDIR', 'RAWCHARS', 'IGNORECASE',
                 'FORCEWIN', 'FORCEUNIX', 'CASE', 'GLOBSTARLONG']
    vals = [getattr(m, n) for n in names]
    subs = [0, sum(vals) & ~(m.FORCEUNIX), sum(vals) & ~(m.FORCEWIN)]
    subs += vals
    pairs = list(itertools.combinations(vals, 2))
    rnd.shuffle(pairs)
    subs += [a | b for a, b in pairs[: (20 if quick else len(pairs))]]
    for _ in range(15 if quick else 300):
        subs.append(sum(v for v in vals if rnd.random() < 0.5))
    out = []
    for f in subs:
        if f not in out:
            out.append(f)
    return out


def literal_items(s, win):
    """Generator-AST of the literal path text s (separators: / and, in Windows mode, backslash)."""
    items = []
    cur = []
    for ch in s:
        if ch == '/' or (win and ch == '\\'):
            if cur:
                items.append(('seg', tuple(cur)))
                cur = []
            if not items or items[-1][0] != 'sep':
                items.append(('sep', '/'))
        else:
            cur.append(('lit', ch, False))
    if cur:
        items.append(('seg', tuple(cur)))
    return tuple(items)


def closure_formula(sym, s, mode, win, ci):
    """x in eq(s): the mode's equivalence class of the literal string s."""
    if mode == 'fn':
        if len(s) > sym.N:
            return FALSE
        f = sym.len_eq(len(s))
        for i, ch in enumerate(s):
            v = ord(ch)
            alts = {v}
            if ci:
                alts.add(S.swap_ascii(v))
            if win and ch in '/\\':
                alts |= {47, 92}
            f = AND(f, z3.Or(*[sym.c[i] == sym.cv(a) for a in sorted(alts)]))
        return f
    sp = WinSpec(sym, path=True, dot=True, ci=ci) if win else S.Spec(sym, path=True, dot=True, ci=ci)
    return sp.path_full(literal_items(s, win), globstar=False, globstarlong=False, matchbase=False)


class WinSpec(S.Spec):
    """Path spec whose separators are / or backslash."""

    def is_slash(self, i):
        return z3.Or(self.s.c[i] == self.s.cv(47), self.s.c[i] == self.s.cv(92))

    def noslash(self, i):
        return z3.Not(self.is_slash(i))


def mode_info(mode, flags):
    m = e1.mod_of(mode)
    f = flags
    if f & m.FORCEWIN and f & m.FORCEUNIX:
        f ^= m.FORCEWIN | m.FORCEUNIX
    win = bool(f & m.FORCEWIN)
    if f & m.CASE:
        ci = False
    elif f & m.IGNORECASE:
        ci = True
    else:
        ci = win
    return win, ci


def work(item, N):
    kind, mode, s, flags = item
    m = e1.mod_of(mode)
    res = {'item': item, 'status': 'ok', 'sat': 0, 'unsat': 0, 'unknown': 0, 'solver_s': 0.0}
    win, ci = mode_info(mode, flags)
    try:
        if kind == 'escape':
            if mode == 'fn':
                pat = m.escape(s)
            elif not win and len(s) % 2 == 0:
                pat = m.escape(s)                 # the default (unix=None) means the running platform's rules: POSIX here
            else:
                pat = m.escape(s, unix=not win)
        else:
            pat = s
            if m.is_magic(s, flags=flags):
                res['status'] = 'skip_magic'
                return res
        res['pattern'] = pat
        inc, exc = e1.real_regexes(mode, pat, flags)
    except Exception as ex:  # noqa: BLE001
        res['status'] = 'raises'
        res['exc'] = repr(ex)
        return res
    n = max(N, len(s) + 3)
    try:
        sym = SymStr('x', n, False)
        enc = RxEnc(sym)
        impl = enc.matcher(inc, exc)
        clo = closure_formula(sym, s, mode, win, ci)
    except NotEncodable as ex:
        res['status'] = 'not_encodable'
        res['exc'] = str(ex)
        return res
    dom = enc.side_constraints() + [sym.len_ge(1)]
    if ci:
        allowed = sorted(set(range(128)) | {ord(c) for c in s})
        dom += sym.alphabet_constraints(allowed)
    r, mdl, dt = e1.solve(dom + [z3.Xor(impl, clo)])
    res[r] += 1
    res['solver_s'] += dt
    if r == 'sat':
        w = sym.eval(mdl)
        res['status'] = 'differs'
        res['witness'] = w
        res['impl'] = e1.concrete_match(inc, exc, w)
        return res
    if r != 'unsat':
        res['status'] = 'unknown'
        return res
    # the string itself is accepted (concretely, through the regexes that are executed)
    if not e1.concrete_match(inc, exc, s):
        res['status'] = 'self_rejected'
    return res


def strings(ctx, rnd):
    out = []
    L = 2 if ctx.quick else 3
    for k in range(1, L + 1):
        for t in itertools.product(ALPHABET, repeat=k):
            out.append(''.join(t))
    extra_n = 400 if ctx.quick else 6000
    for _ in range(extra_n):
        k = rnd.randint(3, 6)
        out.append(''.join(rnd.choice(ALPHABET) for _ in range(k)))
    out += ['!(a)', '@(a|b)', '[a-c]', '{a,b}', '~user', '~', '-a', '!a', 'a|b', '\\*', '\\\\', '\\', 'a\\', '**', '***/a', '.', '..', './a', '.a', '[[:alpha:]]',
            '[]', '[!', 'a/b', '/a', 'a/', '//a', 'a//b/', '//a*/b', '//a*/b/c*', '//s?/[a]/f', '///a*', '//?/a*', '//./a[b]', '//a', '//*', '//*/[b]', '/a*/b', '\\x41', '\\N{DIGIT ONE}', '\\u0041', '\\101', '\\n']
    seen = set()
    res = []
    for s in out:
        if s and s not in seen:
            seen.add(s)
            res.append(s)
    return res


def build_items(ctx, rnd):
    items = []
    strs = strings(ctx, rnd)
    for mode in ('fn', 'gl'):
        subs = flag_subsets(mode, ctx.quick, rnd)
        for k, s in enumerate(strs):
            if len(s) <= 1:
                chosen = subs
            elif len(s) == 2:
                chosen = subs[:3] + [subs[3 + (k + j) % (len(subs) - 3)] for j in range(3 if ctx.quick else 12)]
            else:
                chosen = [subs[0]] + [subs[1 + (k + j) % (len(subs) - 1)] for j in range(2 if ctx.quick else 6)]
            for f in chosen:
                items.append(('escape', mode, s, f))
                if k % 2 == 0 or len(s) <= 2:
                    items.append(('nonmagic', mode, s, f))
    # GLOBTILDE needs REALPATH to take effect: the compiled regexes are still independent of the tree
    from wcmatch import glob as G
    for s in ('~', '~/f', '~x', 'a~', '~root', '~/'):
        for f in (G.GLOBTILDE | G.REALPATH, G.GLOBTILDE | G.REALPATH | G.NEGATE, G.GLOBTILDE | G.REALPATH | G.EXTGLOB | G.BRACE | G.SPLIT):
            items.append(('escape', 'gl', s, f))
    # Windows drive / UNC shapes
    W = G.FORCEWIN
    for s in ('//?/UNC/ser*ver/share/x', '//?/unc/s[a]/!(b)/f', '//?/Unc/a*/b?/c', '//?/GLOBAL/UNC/s[a]/!(b)/f', '//?/global/unc/a*/b/c', '//h*st/sh[a]re/x', '//./UNC/a*/b/c',
              '//?/c:/a*', '//?/C:/a*', 'C:/a*', 'c:/[a]', '//?/Volume{ab}/x*', '//?/GLOBAL/c:/a*',
              'c:/a', 'C:\\a*', '//host/share/a[b]', '\\\\host\\share\\{a}', '//?/c:/a!', '//?/UNC/host/share/x|y', 'c:', 'c:a', '//host/share', '//./c:/(a)'):
        for f in (W, W | G.EXTGLOB | G.BRACE | G.SPLIT | G.NEGATE, W | G.CASE):
            items.append(('escape_drive', 'gl', s, f))
    return items


def work_drive(item, N):
    """Drive shapes: s itself must match; everything accepted must equal s modulo case, separator spelling and duplicate
    separators (the count of leading separators of a UNC prefix is left free: MAY only)."""
    kind, mode, s, flags = item
    from wcmatch import glob as G
    res = {'item': item, 'status': 'ok', 'sat': 0, 'unsat': 0, 'unknown': 0, 'solver_s': 0.0}
    try:
        pat = G.escape(s, unix=False)
        res['pattern'] = pat
        inc, exc = e1.real_regexes('gl', pat, flags)
    except Exception as ex:  # noqa: BLE001
        res['status'] = 'raises'
        res['exc'] = repr(ex)
        return res
    if not e1.concrete_match(inc, exc, s):
        res['status'] = 'self_rejected'
        return res
    n = len(s) + 2
    sym = SymStr('x', n, False)
    enc = RxEnc(sym)
    impl = enc.matcher(inc, exc)
    may = closure_formula(sym, s, 'gl', True, True)
    dom = enc.side_constraints() + [sym.len_ge(1)] + S.ascii_only(sym)
    r, mdl, dt = e1.solve(dom + [impl, z3.Not(may)])
    res[r] += 1
    res['solver_s'] += dt
    if r == 'sat':
        res['status'] = 'differs'
        res['witness'] = sym.eval(mdl)
        res['impl'] = True
    elif r != 'unsat':
        res['status'] = 'unknown'
    return res


def dispatch(item, N):
    return work_drive(item, N) if item[0] == 'escape_drive' else work(item, N)


def run(ctx):
    os.environ['HOME'] = '/root'
    rnd = random.Random(ctx.seed * 7919 + 9)
    N = 4
    live = common.check_known_witnesses(ctx)
    items = build_items(ctx, rnd)
    results = common.pmap(dispatch, items, ctx.workers, extra=(N,))
    q = {'sat': 0, 'unsat': 0, 'unknown': 0}
    solver_s = 0.0
    distinct = set()
    samples = []
    kinds = {}
    region_hits = 0
    for res in results:
        for k in q:
            q[k] += res[k]
        solver_s += res['solver_s']
        kind, mode, s, flags = res['item']
        st = res['status']
        if st == 'skip_magic':
            continue
        if st == 'ok':
            kinds[kind] = kinds.get(kind, 0) + 1
            distinct.add((kind, mode, s, flags))
            if len(samples) < 6 and len(s) >= 2 and any(c in s for c in '*[!{'):
                samples.append({'kind': kind, 'mode': mode, 'string': s, 'flags': e1.flagnames(mode, flags), 'pattern': res.get('pattern'),
                                'verdict': 'unsat: language == closure({s})'})
            continue
        if st in ('unknown', 'not_encodable'):
            ctx.inconclusive.append({'why': st, 'item': res['item'], 'detail': res.get('exc')})
            continue
        region = classify_known(res)
        if region and region in live:
            region_hits += 1
            continue
        if st == 'raises':
            rep = {'describe': f'C09 {kind}: compiling the pattern for {s!r} raises {res["exc"]}',
                   'steps': [{'as': 'r', 'call': 'engine.replayfn.escape_check', 'args': [kind, mode, s, flags, s]}], 'assert': 'r == True'}
        elif st == 'self_rejected':
            rep = {'describe': f'C09 {kind}: {s!r} is not matched by its own {"escaped " if kind != "nonmagic" else "non-magic "}pattern [{e1.flagnames(mode, flags)}]',
                   'steps': [{'as': 'r', 'call': 'engine.replayfn.escape_check', 'args': [kind, mode, s, flags, s]}], 'assert': 'r == True'}
        else:
            rep = {'describe': f'C09 {kind}: pattern for {s!r} [{e1.flagnames(mode, flags)}] and name {res["witness"]!r}: impl={res.get("impl")} but the '
                               f'closure of the literal says {not res.get("impl")}',
                   'steps': [{'as': 'r', 'call': 'engine.replayfn.escape_check', 'args': [kind, mode, s, flags, res['witness']]}],
                   'assert': f'r == {not res.get("impl")!r}'}
        common.confirm(ctx, rep)
    walk = walk_side(ctx)
    ctx.coverage.update({
        'walk_side': {k: walk[k] for k in ('evaluations', 'distinct_nontrivial', 'combos', 'solver_calls', 'traces_validated_against_impl', 'samples')},
        'evaluations': q['sat'] + q['unsat'] + q['unknown'] + walk['evaluations'], 'distinct_nontrivial': len(distinct) + walk['distinct_nontrivial'],
        'rule': 'one obligation per (kind, mode, string, flag subset): language of the real compile(escape(s)) (or of a non-magic p) == the '
                'equivalence class of the literal; distinct = discharged obligations (all are non-trivial: the language is a non-empty singleton class)',
        'samples': samples, 'kinds': kinds, 'obligations': len(results), 'queries': q, 'solver_time_s': round(solver_s, 2),
        'bounds': {'strings': 'all over a %d-symbol alphabet up to length %d + seeded longer' % (len(ALPHABET), 2 if ctx.quick else 3),
                   'name_length_max': '|s|+3', 'flags': 'covering sample of subsets (singles, pairs, random)'},
        'functions_encoded': ['_wcparse.escape, is_magic (run concretely); WcParse output regexes encoded'],
        'known_region_hits': region_hits, 'exhaustive': not ctx.inconclusive,
        'outside_claim': ['s itself is enumerated, not symbolic (escape is two regex substitutions)', 'non-ASCII case pairs'],
    })
    ctx.assumptions += ['z3 QF_BV', 're._parser AST == what _sre executes']


def classify_known(res):
    kind, mode, s, flags = res['item']
    m = e1.mod_of(mode)
    win, _ci = mode_info(mode, flags)
    if mode == 'gl' and win and len(s) >= 2 and s[0] in '/\\' and s[1] in '/\\' and (res['status'] == 'self_rejected' or (res['status'] == 'differs' and res.get('impl') is False)):
        # (only the direction of the listed defect: a spelling of s that the pattern REJECTS; a foreign name that is accepted is not part of it)
        # a string that begins with two separators is read as a UNC prefix, which tolerates no duplicate separators inside it
        return 'unc-shaped-string-duplicate-separators'
    if mode == 'gl' and s.endswith('\n') and res['status'] in ('differs', 'self_rejected'):
        # `$` inside _NO_DIR / path fragments also matches before a trailing newline (listed under C02)
        return 'trailing-newline-dollar'
    return None


def walk_side(ctx):
    """E3: glob(glob.escape(path)) on symbolic trees whose entry names contain metacharacters and backslashes."""
    from engine import fsdriver
    from wcmatch import glob as G
    combos = []
    for f in (0, G.EXTGLOB | G.BRACE | G.SPLIT | G.GLOBSTAR, G.NEGATE | G.MINUSNEGATE | G.EXTGLOB, G.DOTGLOB | G.GLOBSTAR | G.GLOBTILDE):
        for t in ('meta', 'hid', 'nonascii', 'flat') if ctx.quick else ('meta', 'hid', 'hid2', 'nonascii', 'flat', 'nest', 'case', 'dotlink'):
            combos.append(('c09fs', t, (f,)))
    saved = ctx.coverage
    ctx.coverage = {}
    fsdriver.run_property(ctx, combos, None, 3000 if ctx.quick else 60000, lambda p: f'flags={p[0]:#x}', known_from=('C09',))
    walk = ctx.coverage
    ctx.coverage = saved
    return walk

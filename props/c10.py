"""C10 - every string is an acceptable pattern: no crashes, no invalid regexes (E4 concolic + concrete seed layer).

Deciding part: the real WcParse / WcSplit / _GlobSplit are executed concolically over symbolic pattern characters (z3 generates
the next pattern for every unexplored parser branch): *free* mode - every string of the stated length over full Unicode;
*window* mode - concrete contexts with 1-2 (3) symbolic characters inside.  Each explored path's representative is also run
unpatched through the public entry points.  Violation = re.error / IndexError / RecursionError / any undocumented exception.
Non-deciding seed layer: hand-listed malformed patterns and Windows drive shapes (Windows mode consumes the proxies in C-level
regexes, so it is outside the concolic claim) through every public entry point, str and bytes.
"""
from __future__ import annotations
import random
import re
import warnings

warnings.simplefilter('ignore', FutureWarning)

from engine import common, concolic, gen

LEVEL = 'model_checking'
DOCUMENTED = ('PatternLimitException', 'SyntaxError', 'LookupError', 'KeyError', 'TypeError', 'ValueError')


def flagsets():
    from wcmatch import _wcparse as wp
    E, P, G, L, D, N, M, MB, ND, RP, NDD, I, S = (wp.EXTMATCH, wp.PATHNAME, wp.GLOBSTAR, wp.GLOBSTARLONG, wp.DOTMATCH, wp.NEGATE, wp.MINUSNEGATE, wp.MATCHBASE, wp.NODIR,
                                                   wp.REALPATH, wp.NODOTDIR, wp.IGNORECASE, wp.SPLIT)
    U = wp.FORCEUNIX
    return [E | U, U, E | D | U, E | P | G | U, E | P | G | D | NDD | U, E | P | L | MB | U, E | P | G | RP | U, E | N | U, E | N | M | P | U, E | S | U,
            E | P | G | wp._TRANSLATE | U, E | wp._TRANSLATE | I | U, E | P | wp._NOABSOLUTE | wp._EXTMATCHBASE | G | U]


def public_outcome(text, flags):
    """Run the representative through the public entry points (unpatched semantics for plain strings)."""
    from wcmatch import _wcparse as wp, fnmatch as F, glob as G
    path = bool(flags & wp.PATHNAME)
    mod = G if path else F
    pub = flags & (mod.FLAG_MASK if hasattr(mod, 'FLAG_MASK') else 0xFFFFFF)
    pub &= ~(wp.REALPATH)
    try:
        inc, exc = mod.translate(text, flags=pub)
        for r in list(inc) + list(exc):
            re.compile(r)
        m = mod.compile(text, flags=pub)
        for name in ('a', '.a', 'a/b', text[:3] or 'x'):
            m.match(name)
        if path:
            G.Glob([text], flags=pub)               # _GlobSplit + per-part compilation (no file-system access)
        else:
            F.filter(['a', 'b'], text, flags=pub)
        mod.is_magic(text, flags=pub)
        mod.escape(text)
    except Exception as ex:  # noqa: BLE001
        n = type(ex).__name__
        if n in DOCUMENTED and n != 'ValueError':
            return 'ok'
        if n == 'ValueError' and flags & wp._NOABSOLUTE and 'relative' in str(ex):
            return 'ok'                       # absolute pattern given to a pathlib-style call: documented
        return f'public API: {n}: {ex}'
    return 'ok'


def make_func(flags):
    from wcmatch import _wcparse as wp, glob as G

    def func(p):
        try:
            r = wp.WcParse(p, flags).parse()
            try:
                re.compile(r)
            except re.error as ex:
                return f're.error from WcParse output: {ex}'
            list(wp.WcSplit(p, flags).split())
            if flags & wp.PATHNAME:
                G._GlobSplit(p, flags & ~wp._TRANSLATE).split()
        except ValueError as ex:
            if flags & wp._NOABSOLUTE and 'relative' in str(ex):
                pass
            else:
                return f'ValueError: {ex}'
        except Exception as ex:  # noqa: BLE001
            return f'{type(ex).__name__}: {ex}'
        return public_outcome(str(p), flags)
    return func


def job(item):
    """item = (mode, flags, context or n, cap_s)."""
    mode, flags, spec, cap = item
    concolic.install()
    concolic.LOST[0] = 0
    try:
        func = make_func(flags)
        if mode == 'free':
            n = spec
            res = concolic.explore(lambda chars: concolic.SymStr(chars), n, func, cap_s=cap)
        else:
            pre, k, suf = spec
            res = concolic.explore(lambda chars: concolic.SymStr(list(pre) + chars + list(suf)), k, func, cap_s=cap)
    finally:
        concolic.uninstall()
    res['item'] = item
    res['lost'] = concolic.LOST[0]
    res['witnesses'] = res['witnesses'][:3]
    return res


def contexts(ctx, rnd):
    out = []
    # bracket skeletons
    for pre, suf in [('[', ']'), ('[a', 'a]'), ('[a-', ']'), ('[', '-a]'), ('[!', ']'), ('[[:', ':]]'), ('[a-', '-c]'), ('x[', ']y'), ('[[:alpha:]', ']'), ('[', 'b-a]')]:
        out.append((pre, 2, suf))
    # group skeletons
    for pre, suf in [('', '(a)'), ('@(', ')'), ('@(a', 'b)'), ('!(', ')'), ('!(a)', '(b)'), ('*(', '|a)'), ('a', '(b|c)d'), ('@(a|', ')'), ('+(a', ''), ('@(!(', '))'),
                     ('!(a|', ')b'), ('', 'a)'), ('@(a)', ''), ('?(', ''), ('a/', '/b'), ('**', ''), ('', '**/a'), ('a', '/'), ('\\', ''), ('', '\\')]:
        out.append((pre, 2, suf))
        out.append((pre, 1, suf))
    pool = gen.segment_pool('quick', rnd, ext=True)
    k = 40 if ctx.quick else 160
    for nodes in rnd.sample(pool, k):
        t = gen.render_nodes(nodes)
        if len(t) < 2:
            continue
        i = rnd.randrange(0, len(t))
        w = rnd.choice([1, 1, 2])
        out.append((t[:i], w, t[i + w:]))
    if not ctx.quick:
        for pre, suf in [('[', ']'), ('@(', ')'), ('!(', ')'), ('[a', ']'), ('', '')]:
            out.append((pre, 3, suf))
    return out


def seed_layer():
    """Concrete, non-deciding: malformed constructs and Windows drive shapes through every public entry point."""
    from wcmatch import fnmatch as F, glob as G, pathlib as P, wcmatch as W
    texts = gen.odd_patterns() + ['\\/', '\\/\\/', '\\/|a', 'a\\/', 'zz|\\', '\\/a', '@(\\/)', '[a--a]', '[9--a]', '[a--b-c]', 'x[z--q]*', '@([a--a])', '//server', '//server/', '\\\\\\\\server\\\\', '//?/', '//a//', '@(x)|//srv',
                                  '//?/UNC/', '//?/UNC/a', '//./', 'c:', 'c:/', '/', '//', '\\\\', '[c-\\z-ba]', '[a-[:alpha:][:digit:]]', '!(', '!()', '!(!(!(a)))',
                                  '*(*(*(*(a))))', '{a,b', '{', '}', '~', '~/', '\\N{', '\\x', '\\u12', '\\777', '[\\', '[\\]', '[]]', '[!]', '[^]', '[]-]', '[--]',
                                  '[a-]', '[-a]', '@(a|b|)', '@(|)', '@(a\\', '?(a|b', '\\', 'a\\', '\\\\', '***/***', '**/**/**', '!a', '-a', '!(a)!(b)!(c)']
    for d in ('//?/C:/', '//?/UNC/h/s/', '//host/share/', 'c:/', '//./c:/', '//?/GLOBAL/UNC/h/s/'):
        for ins in ('(', '[', '+', '*', ')', '{', '|', '?x', 'a)b', '[a-', '.'):
            texts.append(d.replace('h/', 'h' + ins + '/', 1) if 'h/' in d else d + ins)
            texts.append(d + 'x' + ins)
    texts += ['\\400', '\\477', '\\1', '\\18', '\\x7', '\\x7b', '\\N{DIGIT ONE}', '\\N{nope}', '\\U0010ffff', '\\U00110000', '\\u00e9']
    bad = []
    n = 0

    def allowed(nm, ex, text, raw, pathlib_call):
        """A documented error is only acceptable in the situation it is documented for."""
        t = text if isinstance(text, str) else text.decode('latin-1')
        if nm == 'PatternLimitException':
            return True
        if nm in ('SyntaxError', 'LookupError', 'KeyError'):
            return raw and '\\' in t                 # undecodable RAWCHARS escape
        if nm == 'ValueError':
            return pathlib_call and ('relative' in str(ex) or 'forced' in str(ex))
        return False                                     # TypeError: the seeds never mix str and bytes

    def run(desc, fn, text='', raw=False, pathlib_call=False):
        nonlocal n
        n += 1
        try:
            fn()
        except Exception as ex:  # noqa: BLE001
            nm = type(ex).__name__
            if allowed(nm, ex, text, raw, pathlib_call):
                return
            bad.append((desc, f'{nm}: {ex}'))
    fsets_f = [0, F.EXTMATCH, F.EXTMATCH | F.NEGATE | F.SPLIT | F.BRACE, F.EXTMATCH | F.FORCEWIN, F.RAWCHARS | F.EXTMATCH, F.EXTMATCH | F.DOTMATCH | F.IGNORECASE,
               F.FORCEWIN | F.CASE | F.EXTMATCH, F.RAWCHARS | F.FORCEWIN]
    fsets_g = [G.EXTGLOB | G.GLOBSTAR, G.EXTGLOB | G.GLOBSTAR | G.FORCEWIN, G.EXTGLOB | G.GLOBSTARLONG | G.MATCHBASE | G.NEGATE | G.SPLIT | G.BRACE,
               G.FORCEWIN | G.RAWCHARS, G.EXTGLOB | G.NODIR | G.NODOTDIR | G.DOTGLOB, G.FORCEWIN | G.EXTGLOB | G.SPLIT | G.MATCHBASE,
               G.FORCEWIN | G.CASE | G.EXTGLOB | G.GLOBSTAR, G.FORCEWIN | G.CASE | G.REALPATH, G.RAWCHARS | G.BRACE | G.SPLIT]
    for t in texts:
        for tb in (t, t.encode('latin-1', 'ignore')):
            nm = (lambda s: s) if isinstance(tb, str) else (lambda s: s.encode())
            for f in fsets_f:
                run(('fnmatch', tb, f), lambda: (F.translate(tb, flags=f), F.fnmatch(nm('a'), tb, flags=f), F.filter([nm('a')], tb, flags=f), F.compile(tb, flags=f).match(nm('b')),
                                                 [re.compile(r) for r in F.translate(tb, flags=f)[0]]), tb, bool(f & F.RAWCHARS))
            for f in fsets_g:
                run(('glob', tb, f), lambda: (G.translate(tb, flags=f), G.globmatch(nm('a/b'), tb, flags=f), G.globfilter([nm('a')], tb, flags=f),
                                              G.Glob([tb], flags=f), [re.compile(r) for r in G.translate(tb, flags=f)[0]]), tb, bool(f & G.RAWCHARS))
        for f in (0, P.EXTGLOB | P.GLOBSTAR, P.CASE | P.EXTGLOB):
            run(('PurePosixPath.match', t, f), lambda: P.PurePosixPath('a/b').match(t, flags=f), t, False, True)
            run(('PureWindowsPath.match', t, f), lambda: P.PureWindowsPath('a/b').globmatch(t, flags=f), t, False, True)
        for f in (0, P.EXTGLOB | P.GLOBSTAR | P.SPLIT, P.BRACE | P.NEGATE):
            run(('Path.rglob', t, f), lambda: list(P.Path('/nonexistent-wcverif').rglob(t, flags=f)), t, False, True)
            run(('Path.glob', t, f), lambda: list(P.Path('/nonexistent-wcverif').glob(t, flags=f)), t, False, True)
        run(('WcMatch', t), lambda: W.WcMatch('/nonexistent-wcverif', t, t, W.RECURSIVE | W.EXTMATCH | W.BRACE | W.FILEPATHNAME | W.DIRPATHNAME | W.GLOBSTAR), t)
        run(('WcMatch raw', t), lambda: W.WcMatch('/nonexistent-wcverif', t, None, W.RECURSIVE | W.RAWCHARS), t, True)
    return bad, n


def run(ctx):
    rnd = random.Random(ctx.seed * 7919 + 10)
    live = common.check_known_witnesses(ctx)
    fs = flagsets()
    items = []
    for k, f in enumerate(fs):
        items.append(('free', f, 1, 20))
        if not ctx.quick or k in (0, 3, 5, 7, 9, 12):
            items.append(('free', f, 2, 45 if ctx.quick else 150))
    if not ctx.quick:
        for f in (fs[0], fs[3], fs[5], fs[12]):
            items.append(('free', f, 3, 600))
    ctxs = contexts(ctx, rnd)
    n_skel = 10 + 40            # the hand-listed bracket / group / separator / backslash skeletons come first in contexts()
    for k, c in enumerate(ctxs):
        if ctx.quick:
            # rotating flag sets, and for the skeletons always the two sets with implicit prefixes (MATCHBASE; pathlib's right-anchored form)
            fsel = [fs[k % len(fs)], fs[(k + 3) % len(fs)]] + ([fs[5], fs[12]] if k < n_skel and c[1] == 1 else [])
        elif k < n_skel:
            fsel = fs                                                    # thorough: every skeleton under every flag set
        else:
            fsel = [fs[(k + j) % len(fs)] for j in range(4)]            # thorough: random contexts under 4 rotating flag sets
        for f in dict.fromkeys(fsel):
            items.append(('window', f, c, 25 if ctx.quick else 90))
    results = common.pmap(job, items, ctx.workers, chunk=1)
    paths = 0
    lost = 0
    incomplete = 0
    nontrivial = 0
    samples = []
    solver_calls = 0
    for r in results:
        paths += r['paths']
        lost += r['lost']
        solver_calls += r['solver_calls']
        if r['paths'] > 1:
            nontrivial += 1
        if not r['complete']:
            incomplete += 1
        mode, flags, spec, cap = r['item']
        if len(samples) < 6 and r['paths'] > 5:
            samples.append({'mode': mode, 'flags': hex(flags), 'spec': spec, 'paths': r['paths'], 'complete': r['complete'], 'witnesses': r['witnesses']})
        for outcome, text in r['bad'].items():
            if 'escaped-range-end-then-hyphen' in live and 'bad character range' in outcome:
                continue
            rep = {'describe': f'C10 pattern {text!r} flags={flags:#x}: {outcome}',
                   'steps': [{'as': 'o', 'call': 'engine.replayfn.c10_outcome', 'args': [text, flags]}], 'assert': "o == 'ok'"}
            common.confirm(ctx, rep)
    if lost:
        ctx.inconclusive.append({'why': f'{lost} lost-constraint events (__hash__ of a symbolic proxy) on parser paths: the free-mode claim would be void'})
    # malformed constructs keep a literal-or-empty meaning: whatever a slash-less text means, MATCHBASE must mean the same thing for the
    # last segment (the relational law of props/c02.matchbase_law needs no reading of the text, so it applies to malformed ones)
    from props import c02
    from wcmatch import glob as G
    mtexts = [t for t in gen.odd_patterns() if '/' not in t] + ['\\', 'a\\', '*\\', '[a\\', '@(a\\', '\\\\', '[', '@(', '!(', '']
    mitems = [(t, f) for t in dict.fromkeys(mtexts) for f in (G.EXTGLOB | G.GLOBSTAR, G.EXTGLOB | G.DOTGLOB | G.NEGATE)]
    nlaw = 0
    for r in common.pmap(c02.matchbase_law, mitems, ctx.workers, extra=(4,)):
        nlaw += r['sat'] + r['unsat'] + r['unknown']
        st = r['status']
        if st in ('ok', 'compile_raises', 'region_nullable_group'):
            continue
        if st in ('unknown', 'not_encodable'):
            ctx.inconclusive.append({'why': 'malformed-pattern MATCHBASE law: ' + st, 'item': r['item']})
            continue
        text, flags = r['item']
        w = r['witness']
        name = w if st == 'matchbase_changes_slashless_name' else 'd/' + w
        common.confirm(ctx, {'describe': f'C10: the (malformed) pattern {text!r} does not keep one literal-or-empty meaning: with MATCHBASE it accepts {name!r} differently from {w!r} without',
                             'steps': [{'as': 'a', 'call': 'engine.replayfn.matcher_accepts', 'args': ['gl', text, name, {'flags': flags | G.MATCHBASE}]},
                                       {'as': 'b', 'call': 'engine.replayfn.matcher_accepts', 'args': ['gl', text, w, {'flags': flags & ~G.MATCHBASE}]}],
                             'assert': 'a == b'})
    ctx.coverage['malformed_matchbase_law_queries'] = nlaw
    bad, n_seed = seed_layer()
    bad = [b for b in bad if not ('escaped-range-end-then-hyphen' in live and 'bad character range' in b[1])]
    for desc, what in bad[:10]:
        rep = {'describe': f'C10 seed layer {desc!r}: {what}', 'steps': [{'as': 'b', 'call': 'engine.replayfn.c10_seed_failures', 'args': []}], 'assert': 'b == []'}
        common.confirm(ctx, rep)
        break
    ctx.coverage.update({
        'evaluations': paths + n_seed, 'distinct_nontrivial': nontrivial,
        'rule': 'one exploration per (mode, flag set, length or context); evaluations = distinct parser paths explored (each with a solver-generated '
                'representative pattern) + concrete seed calls; non-trivial = explorations with more than one path',
        'samples': samples, 'explorations': len(items), 'paths': paths, 'solver_calls': solver_calls, 'explorations_not_exhausted_within_cap': incomplete,
        'lost_constraint_events': lost, 'seed_layer_calls': n_seed,
        'bounds': {'free': 'all strings of length <= 2 (quick) / <= 3 for 4 flag sets (thorough, 600 s cap each; explorations not exhausted within the cap are counted and reported) over 0..0x10FFFF', 'window': '1-2 (3) symbolic characters in %d contexts' % len(ctxs),
                   'flag_sets': len(fs), 'mode': 'str patterns, Unix mode, BRACE off for the concolic part'},
        'functions_encoded': ['_wcparse.WcParse (root/_sequence/_references/_handle_star/_handle_dot/parse_extend/clean_up_inverse)', '_wcparse.WcSplit', 'glob._GlobSplit'],
        'exhaustive': not ctx.inconclusive and incomplete == 0,
        'outside_claim': ['bytes patterns, Windows mode, RAWCHARS decoding and BRACE in the concolic part (seed layer only)', 'more than the stated number of free characters'],
    })
    ctx.assumptions += ['z3 (linear integer constraints over code points)', 'proxy layer records every character test of the parser (lost-constraint events counted; must be 0)']

"""C11 - the pattern limit bounds expansion work in every API, default 1000 (E2: CrossHair on the real loops).

Deciding part: harness/xh_c11.py - the real compile_pattern / translate / Glob.__init__ / compile (twice: call history)
executed symbolically by CrossHair over symbolic limits and expansion counts; `Confirmed over all paths` is the passing
verdict, a counterexample is re-evaluated in a plain interpreter and then replayed through the public API with real bracex.
Non-deciding concrete layer: default limit of every entry point (inspect.signature), boundary constants 32/33/1000/1001 and
`{1..100000000}` failing fast through every public entry point with the real bracex.
"""
from __future__ import annotations
import ast
import inspect
import os
import time

from engine import common, xh

LEVEL = 'model_checking'
HARNESS = os.path.join(common.VERIF, 'harness', 'xh_c11.py')


def eval_call(call):
    """Evaluate `law_x(1, 2, ...)` in a plain interpreter (no CrossHair): the harness function on concrete values."""
    import importlib.util
    spec = importlib.util.spec_from_file_location('xh_c11', HARNESS)
    mod = importlib.util.module_from_spec(spec)
    spec.loader.exec_module(mod)
    tree = ast.parse(call, mode='eval').body
    fn = getattr(mod, tree.func.id)
    args = [ast.literal_eval(a) for a in tree.args]
    return tree.func.id, args, fn(*args)


def _boundary(case):
    from engine import replayfn
    return replayfn.limit_boundary(*case)


def concrete_layer(ctx):
    """Returns a list of replays for failures (each is confirmed before being reported)."""
    from wcmatch import fnmatch as F, glob as G, pathlib as P, wcmatch as W
    fails = []
    entries = [('wcmatch.fnmatch.fnmatch', F.fnmatch), ('wcmatch.fnmatch.filter', F.filter), ('wcmatch.fnmatch.translate', F.translate),
               ('wcmatch.fnmatch.compile', F.compile), ('wcmatch.glob.globmatch', G.globmatch), ('wcmatch.glob.globfilter', G.globfilter),
               ('wcmatch.glob.glob', G.glob), ('wcmatch.glob.iglob', G.iglob), ('wcmatch.glob.translate', G.translate), ('wcmatch.glob.compile', G.compile),
               ('wcmatch.pathlib.PurePath.match', P.PurePath.match), ('wcmatch.pathlib.PurePath.globmatch', P.PurePath.globmatch),
               ('wcmatch.pathlib.Path.glob', P.Path.glob), ('wcmatch.pathlib.Path.rglob', P.Path.rglob), ('wcmatch.wcmatch.WcMatch.__init__', W.WcMatch.__init__)]
    n = 0
    for name, fn in entries:
        n += 1
        d = inspect.signature(fn).parameters['limit'].default
        if d != 1000:
            fails.append({'describe': f'C11 default limit of {name} is {d}, not 1000',
                          'steps': [{'as': 'd', 'call': 'engine.replayfn.default_limit', 'args': [name]}], 'assert': 'd == 1000'})
    cases = [(entry, L, shape) for L in (1, 2, 3, 5, 32, 33, 1000, 1001)
             for entry in ('fnmatch', 'filter', 'fn_translate', 'fn_compile', 'globmatch', 'globfilter', 'glob', 'iglob', 'gl_translate', 'gl_compile',
                           'pathlib_match', 'pathlib_glob', 'pathlib_rglob', 'wcmatch')
             for shape in ('incl_only', 'with_exclude', 'split', 'huge')]
    n += len(cases)
    for (entry, L, shape), bad in zip(cases, common.pmap(_boundary, cases, ctx.workers)):
        if bad:
            fails.append({'describe': f'C11 boundary law entry={entry} L={L} shape={shape}: {bad}',
                          'steps': [{'as': 'bad', 'call': 'engine.replayfn.limit_boundary', 'args': [entry, L, shape]}], 'assert': 'bad == []'})
    return fails, n


def run(ctx):
    common.check_known_witnesses(ctx)
    timeout = 150 if ctx.quick else 900
    t = time.time()
    results = xh.run_all(HARNESS, timeout, ctx.workers)
    conf = 0
    samples = []
    for r in results:
        is_twin = r['name'].startswith('twin_')
        if is_twin:
            if r['verdict'] != 'counterexample':
                ctx.inconclusive.append({'why': 'reachability twin was not refuted (vacuous harness?)', 'cond': r['name'], 'out': r['output']})
            continue
        if r['verdict'] == 'confirmed':
            conf += 1
            if len(samples) < 4:
                samples.append({'condition': r['name'], 'verdict': 'Confirmed over all paths', 'time_s': r['time_s']})
            continue
        if r['verdict'] == 'counterexample' and r['call']:
            try:
                fname, args, val = eval_call(r['call'])
            except Exception as ex:  # noqa: BLE001
                ctx.inconclusive.append({'why': 'could not re-evaluate counterexample', 'cond': r['name'], 'call': r['call'], 'exc': repr(ex)})
                continue
            if val is not False:
                ctx.inconclusive.append({'why': 'CrossHair counterexample does not reproduce in a plain interpreter', 'call': r['call']})
                continue
            rep = {'describe': f'C11 limit law violated: {r["call"]}',
                   'steps': [{'as': 'ok', 'call': 'engine.replayfn.limit_law_public', 'args': [fname, args]}], 'assert': 'ok == True'}
            if not common.confirm(ctx, rep):
                # reproduced on the real loops with the stub but not through the public API with real bracex: still a violation of the
                # encoded law on the real code; report it with the harness-level replay
                ctx.inconclusive.pop()
                rep2 = {'describe': f'C11 limit law violated on the real expansion loop (stubbed bracex): {r["call"]}',
                        'steps': [{'as': 'ok', 'call': 'engine.replayfn.limit_law_harness', 'args': [r['call']]}], 'assert': 'ok == True'}
                common.confirm(ctx, rep2)
            continue
        if 'NotDeterministic' in r['output'] and r['name'].startswith('law_history_'):
            # hidden state survives between CrossHair's executions (e.g. a cache): the symbolic run is void; fall back to evaluating the
            # harness function on its whole (small, finite) precondition domain in this interpreter and replay the first failure
            import itertools
            found = None
            for L0, L, n1, n2, e1 in itertools.product((0, 5), range(5), (1, 2, 3), (0, 1, 2), (0, 1)):
                call = f'{r["name"]}({L0}, {L}, {n1}, {n2}, {e1})'
                if eval_call(call)[2] is False:
                    found = call
                    break
            if found:
                fname, args, _ = eval_call(found)
                rep = {'describe': f'C11 limit law violated after an earlier call with another limit: {found}',
                       'steps': [{'as': 'ok', 'call': 'engine.replayfn.limit_law_public', 'args': [fname, args]}], 'assert': 'ok == True'}
                common.confirm(ctx, rep)
                continue
        ctx.inconclusive.append({'why': 'CrossHair verdict ' + r['verdict'], 'cond': r['name'], 'out': r['output'][-300:]})
    fails, n_conc = concrete_layer(ctx)
    for rep in fails[:10]:
        common.confirm(ctx, rep)
    ctx.coverage.update({
        'evaluations': len(results) + n_conc, 'distinct_nontrivial': conf,
        'rule': 'one CrossHair condition per (entry point, duplicates?, inline-vs-exclude=) over symbolic L and expansion counts; '
                'distinct_nontrivial = conditions confirmed over all paths; plus a concrete (non-deciding) boundary layer',
        'samples': samples, 'conditions': [{k: r[k] for k in ('name', 'verdict', 'time_s')} for r in results],
        'obligations': len(results), 'discharged': conf, 'concrete_boundary_cases': n_conc,
        'solver_time_s': round(sum(r['time_s'] for r in results), 1),
        'bounds': {'L': '0..5', 'expansions per pattern': '<= 3', 'patterns': '3 inclusion + 2 exclusion', 'history': 'one earlier call with limit 0 or 5'},
        'functions_encoded': ['_wcparse.compile_pattern', '_wcparse.translate', '_wcparse.compile', 'glob.Glob.__init__/_iter_patterns/_parse_patterns'],
        'stubs': ['_wcparse.expand (bracex contract: lazy, raises past limit>0)', '_wcparse._compile', '_wcparse.WcParse', 'glob._GlobSplit'],
        'exhaustive': not ctx.inconclusive,
        'outside_claim': ['limits > 5 symbolically (uniform law; constants 32/33/1000/1001 run concretely)', 'bracex internals'],
    })
    ctx.assumptions += ['CrossHair path exploration is complete when it reports Confirmed over all paths', 'z3',
                        'bracex.iexpand does at most limit+1 units of work for limit > 0 (documented contract modelled by the stub)']

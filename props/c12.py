"""C12 - glob results are well-formed and independent of how the root is given (E3 symfs)."""
from __future__ import annotations
import random

from engine import common, fsdriver, symfs, e1

LEVEL = 'model_checking'


def combos(ctx, rnd):
    from wcmatch import glob as G
    S, D, MK, ND, SD, MB, B, SP, N, E, F = G.GLOBSTAR, G.DOTGLOB, G.MARK, G.NODIR, G.SCANDOTDIR, G.MATCHBASE, G.BRACE, G.SPLIT, G.NEGATE, G.EXTGLOB, G.FOLLOW
    singles = ['*', '**', '*/', '**/', 'a/*', 'a/', 'a', 'a/**', '**/x', '*/x/', './*', 'a/../*', 'a//x', 'a/./x', '.*', '**/.*', '$ROOT/*', '$ROOT/a/*', '$ROOT/**/x',
               '$ROOT/a/', '$ROOT//a//x', 'L/*', 'L/', '**/L', 'f', 'f/', '*/*', '?', 'x', '*/..', '../*' if False else '*/.', 'd/d/*', 'ld/*', 'lf', '**/lf',
               'caf\xe9/*', 'caf\xe9/', 'caf\xe9', './caf\xe9//x', 'b/\xfcx', 'b/*', '*/\xfcx', 'Data/*', 'p/q/', 'p/*/f', 'g', 'only-missing']
    fsets = [0, S, S | MK, S | ND, S | D, S | SD, MB | S, MK, ND, S | MK | D, S | F | MK]
    lists = [(['*', 'a/*'], S, None), (['$ROOT/*', '*/*'], 0, None), (['$ROOT/a/*', '*/x', 'a'], S, None), (['*/*', '$ROOT/*'], MK, None), (['**', '!x'], S | ND | N, None),
             (['**', '!**/x'], S | ND | N, None), ('**|!a', S | ND | N | SP, None), ('{**,!f}', S | ND | N | B, None), (['*'], ND, ['a']), (['**'], S | MK, ['**/x']),
             ('{a,b}/*', B, None), ('a/*|b/*', SP, None), (['*/', '*'], MK, None), (['a', './a', 'a/'], 0, None), (['**/', '!a/'], S | N, None)]
    names = list(symfs.templates())
    out = []
    for k, p in enumerate(singles):
        for j, f in enumerate(fsets if not ctx.quick else [fsets[0], fsets[1 + (k % 3)], fsets[4 + (k % (len(fsets) - 4))]]):
            if ('**' in p) and not (f & S):
                f |= S
            ts = names if not ctx.quick else [names[(k + j * 3 + i) % len(names)] for i in range(4)]
            for t in ts:
                out.append(('c12', t, (p, f, None)))
    for k, (p, f, ex) in enumerate(lists):
        for t in (names if not ctx.quick else ['nest', 'flat', 'link1', 'hid', 'same', 'linkfile']):
            out.append(('c12', t, (p, f, ex)))
    return out


def describe(params):
    p, f, ex = params
    return f'patterns={p!r} flags={e1.flagnames("gl", f)} exclude={ex!r}'


def run(ctx):
    rnd = random.Random(ctx.seed * 7919 + 12)
    fsdriver.run_property(ctx, combos(ctx, rnd), 'c12_classify', 3000 if ctx.quick else 60000, describe)
    ctx.coverage['functions_encoded'] = ['glob.Glob (_format_path, _prepend_base, _lexists, _iter, absolute-pattern handling) over the symbolic os layer']

"""C13 - multi-pattern glob is the de-duplicated union minus exclusions (E3 symfs, metamorphic)."""
from __future__ import annotations
import random

from engine import common, fsdriver, symfs, e1

LEVEL = 'model_checking'


def combos(ctx, rnd):
    from wcmatch import glob as G
    S, D, NU, I, N, NA, ND, SD, B, SP, E, C = (G.GLOBSTAR, G.DOTGLOB, G.NOUNIQUE, G.IGNORECASE, G.NEGATE, G.NEGATEALL, G.NODIR, G.SCANDOTDIR, G.BRACE, G.SPLIT,
                                               G.EXTGLOB, G.CASE)
    pool = ['*', 'a', 'a/*', '*/x', '**', '**/x', 'a/', '*/', '.*', 'A', 'U*', 'u*', 'up', 'd/*', 'd/d', 'f', 'L', 'L/*', '?', '[aA]', 'b/*', 'x', 'd', 'sub' if False else 'r/*',
            './a', 'a/.', '**/d', '*/*']
    excls = ['*/', 'a', '**/x', '.*', 'a/*', '*', 'd/', 'f']
    names = list(symfs.templates())
    cases = []
    n = 300 if ctx.quick else 3000
    for _ in range(n):
        k = rnd.randint(1, 3)
        pieces = [rnd.choice(pool) for _ in range(k)]
        if rnd.random() < 0.25:
            pieces.append(pieces[0])
        ex = [rnd.choice(excls) for _ in range(rnd.choice([0, 0, 1, 2]))]
        fl = S | rnd.choice([0, NU, I, I | NU, ND, SD, SD | NU, D, C | I, G.FORCEWIN, G.FORCEWIN | G.FORCEUNIX, G.FORCEUNIX | NU, G.FORCEWIN | NU])
        form = rnd.choice(['list_kw', 'list_inline', 'split', 'brace'])
        if form == 'list_kw' or not ex and form == 'list_inline':
            cases.append((list(pieces), tuple(pieces), tuple(ex), fl, True))
        elif form == 'list_inline':
            cases.append((list(pieces) + ['!' + e for e in ex], tuple(pieces), tuple(ex), fl | N, False))
        elif form == 'split':
            cases.append(('|'.join(list(pieces) + ['!' + e for e in ex]), tuple(pieces), tuple(ex), fl | SP | (N if ex else 0), False))
        else:
            if all(',' not in p and '{' not in p for p in pieces) and len(pieces) > 1 and not ex:
                cases.append(('{' + ','.join(pieces) + '}', tuple(pieces), (), fl | B, False))
    # hand-written: the shapes named in the statement (run on every template, also in quick)
    n_random = len(cases)
    cases += [(['*', 'U*'], ('*', 'U*'), (), I, True), (['a', 'f'], ('a', 'f'), ('*/',), 0, True), (['d', 'f'], ('d', 'f'), ('*/',), N, False) if False else
              (['d', 'f', '!*/'], ('d', 'f'), ('*/',), N, False), ('*|*e|d', ('*', '*e', 'd'), (), SP | SD, False), ('{*,d,f}', ('*', 'd', 'f'), (), B | SD, False),
              (['!a'], (), ('a',), N | NA | S, False), (['!**/x'], (), ('**/x',), N | NA | S, False), (['*', '*'], ('*', '*'), (), NU, True),
              (['**', 'a/*'], ('**', 'a/*'), ('**/x',), S | NU, True), (['a', './a', 'a/'], ('a', './a', 'a/'), (), 0, True)]
    # one input string that SPLIT / BRACE expands into overlapping patterns, under every uniqueness-related flag
    for fl in (0, SD, S | SD, S, I):
        for comb, pieces in (('*|*|a', ('*', '*', 'a')), ('*|?|d|f', ('*', '?', 'd', 'f')), ('{*,a,d,f}', ('*', 'a', 'd', 'f')), ('{*,*}', ('*', '*')), ('a|a', ('a', 'a')), ('{d,d/}', ('d', 'd/'))):
            cases.append((comb, pieces, (), fl | (B if comb.startswith('{') else SP), False))
    n_all_templates = len(cases)
    for q in ['*', 'a', 'd', '**', 'd/*', 'd/**', '*/*', 'Data', 'p/q', '?']:
        for fl in (S, S | NU, S | SD):
            cases.append(([q, q + '/'], (q, q + '/'), (), fl, True))
            cases.append(([q + '/', q], (q + '/', q), (), fl, True))
            cases.append((['d/**', '*/'], ('d/**', '*/'), (), fl, True))
    # exclusions against hidden entries reached through a literal dot (exclusions always behave as if DOTGLOB were set)
    for inc in (['.*'], ['.d/*', 'a/.*'], ['**/.*'], ['*', '.*']):
        for ex in (['*'], ['**/x'], ['*/x'], ['**/*'], ['.*/']):
            for fl in (S, S | D):
                cases.append((list(inc), tuple(inc), tuple(ex), fl, True))
                cases.append((list(inc) + ['!' + e for e in ex], tuple(inc), tuple(ex), fl | N, False))
    # the platform flags are stripped by glob() (the real file system decides): the case rule of the uniqueness filter must follow
    for fl in (G.FORCEWIN, G.FORCEWIN | G.FORCEUNIX, G.FORCEWIN | S | NU, G.FORCEUNIX | I):
        for pieces in (('[a]*', '[A]*'), ('a', 'A'), ('*', 'A*'), ('u*', 'U*', '*')):
            cases.append((list(pieces), pieces, (), fl, True))
    # absolute patterns mixed with relative ones, in both orders (state kept per pattern must not leak into the next one)
    for pieces in (('$ROOT/a/*', '*/x'), ('*/x', '$ROOT/a/*'), ('$ROOT/*', '*/*'), ('$ROOT/f', '*/**/x'), ('$ROOT/a', 'a/*', '*/*/x'), ('$ROOT/**/x', '**/d'), ('a', '$ROOT/a')):
        for fl in (S, S | NU):
            cases.append((list(pieces), pieces, (), fl, True))
            cases.append(('|'.join(pieces), pieces, (), fl | SP, False))
    out = []
    for k, c in enumerate(cases):
        ts = names if (not ctx.quick or n_random <= k < n_all_templates) else [names[(k + j) % len(names)] for j in range(3)] + (['case'] if c[3] & (I | G.FORCEWIN | G.FORCEUNIX) else [])
        for t in ts:
            out.append(('c13', t, c))
    return out


def describe(params):
    comb, pieces, ex, f, use_kw = params
    return f'combined={comb!r} exclusions={list(ex)!r} ({"exclude=" if use_kw else "inline"}) flags={e1.flagnames("gl", f)}'


def run(ctx):
    rnd = random.Random(ctx.seed * 7919 + 13)
    fsdriver.run_property(ctx, combos(ctx, rnd), 'c13_classify', 3000 if ctx.quick else 60000, describe)
    ctx.coverage['functions_encoded'] = ['glob.Glob._iter_patterns/_parse_patterns/_is_unique/_is_excluded/_match_excluded and the walker over the symbolic os layer']

"""C14 - WcMatch returns exactly the files a filtered directory walk selects (E3 symfs + independent reference walk)."""
from __future__ import annotations
import random

from engine import common, fsdriver, symfs

LEVEL = 'model_checking'


def combos(ctx, rnd):
    from wcmatch import wcmatch as W
    R, H, SY, FP, DP, MB, GS, E, B, M, I, C = (W.RECURSIVE, W.HIDDEN, W.SYMLINKS, W.FILEPATHNAME, W.DIRPATHNAME, W.MATCHBASE, W.GLOBSTAR, W.EXTMATCH, W.BRACE,
                                               W.MINUSNEGATE, W.IGNORECASE, W.CASE)
    base_inc = [(), ('*',), ('x',), ('*x', 'f'), ('?',), ('.*',), ('[a-x]',), ('@(x|f)',), ('X',), ('*.y', 'x')]
    base_exc = [(), ('x',), ('.*',), ('f', 'L')]
    path_inc = [('*',), ('**',), ('a/*',), ('**/x',), ('*/x',), ('x',), ('a/**',), ('/a/x',), ('d/d/*',), ('**/d/*',)]
    path_exc = [(), ('**/x',), ('a/*',), ('*',)]
    d_inc = [(), ('a',), ('d',), ('.*',), ('*',), ('L',), ('b', 'd')]
    d_exc = [(), ('a',)]
    dp_inc = [(), ('a/',), ('**/d/',), ('*/',), ('d/d/',), ('a',), ('**/.d/',), ('d',), ('q',), ('x',), ('/d',)]
    names = list(symfs.templates())
    out = []
    cases = []
    n = 110 if ctx.quick else 1500
    for _ in range(n):
        fl = R if rnd.random() < 0.85 else 0
        for bit, pr in ((H, 0.5), (SY, 0.3), (E, 0.6), (M, 0.2), (I, 0.15)):
            if rnd.random() < pr:
                fl |= bit
        if rnd.random() < 0.4:
            fl |= FP
            if rnd.random() < 0.5:
                fl |= GS
            if rnd.random() < 0.3:
                fl |= MB
            finc, fexc = rnd.choice(path_inc), rnd.choice(path_exc)
        else:
            finc, fexc = rnd.choice(base_inc), rnd.choice(base_exc)
        if rnd.random() < 0.35:
            fl |= DP
            if rnd.random() < 0.5:
                fl |= GS
            if rnd.random() < 0.4:
                fl |= MB
            dinc, dexc = rnd.choice(dp_inc), ()
        else:
            dinc, dexc = rnd.choice(d_inc), rnd.choice(d_exc)
        if not dinc:
            dexc = ()
        if not (fl & E):
            finc = tuple(p for p in finc if '(' not in p)
        cases.append((finc, fexc, dinc, dexc, fl))
    # the shapes the statement names explicitly (these run on a fixed set of templates that contain the names they use, also in quick:
    # what they catch must not depend on the seed)
    n_random = len(cases)
    cases += [((), ('*.bak', 'x'), (), (), R | FP), ((), ('x',), (), (), R | FP | H), ((), ('x',), ('a',), (), R), (('*',), (), ('d',), (), R), (('*',), (), ('d',), (), R | H),
              (('*',), (), ('.*',), (), R | H), (('*',), (), (), (), R), (('*',), (), (), (), R | SY | H), ((), (), (), (), R | H), (('x',), (), ('**/d/',), (), R | DP | GS | H),
              (('**/x',), (), (), (), R | FP | GS), (('x',), (), (), (), R | FP | MB), (('*',), (), ('d',), (), R | DP | MB), (('*',), (), ('q',), (), R | DP | MB | H),
              (('*',), (), ('d',), (), R | DP | MB | FP), (('f',), (), (), (), R | MB), (('*',), (), ('/d',), (), R | DP | MB), (('*',), (), ('a',), (), 0), ((), ('**/x',), (), (), R | FP | GS | M)]
    # a leading separator anchors a piece to the walk root, with and without MATCHBASE, in inclusions, exclusions and folder patterns
    for mb in (0, MB):
        cases += [(('/a/x',), (), (), (), R | FP | mb), (('/a/*', '/f'), (), (), (), R | FP | H | mb), (('*',), ('/a/x',), (), (), R | FP | mb),
                  (('**/x',), ('/a/**',), (), (), R | FP | GS | mb), (('/x',), (), (), (), R | FP | mb), (('*',), (), ('/d',), (), R | DP | mb), (('*',), (), ('/a', '/d/d'), (), R | DP | mb),
                  (('*',), (), ('*',), ('/a',), R | DP | mb), (('*',), (), ('/a/',), (), R | DP | mb), (('x',), (), ('/**/d',), (), R | DP | GS | mb)]
    # folder patterns written as directories (trailing separator) under DIRPATHNAME
    cases += [(('*',), (), ('a/',), (), R | DP), (('*',), (), ('*/',), (), R | DP | H), (('*',), (), ('**/d/',), (), R | DP | GS), (('*',), (), ('d/*/',), ('d/d/',), R | DP),
              (('*',), (), ('a/',), (), R | DP | FP), (('*',), (), ('d/',), (), R)]
    fixed = ['nest', 'same', 'hid2', 'link1', 'flat', 'dirsonly', 'linkfile']
    for k, c in enumerate(cases):
        ts = names if not ctx.quick else ([names[(k + j) % len(names)] for j in range(3)] if k < n_random else fixed)
        for t in ts:
            out.append(('c14', t, c))
    return out


def describe(params):
    finc, fexc, dinc, dexc, fl = params
    return f'file pattern +{list(finc)} -{list(fexc)} folder exclude +{list(dinc)} -{list(dexc)} flags={fl:#x}'


def run(ctx):
    rnd = random.Random(ctx.seed * 7919 + 14)
    fsdriver.run_property(ctx, combos(ctx, rnd), 'c14_classify', 3000 if ctx.quick else 60000, describe)
    ctx.coverage['functions_encoded'] = ['wcmatch.WcMatch (_parse_flags, _compile_wildcard, _valid_file, _valid_folder, _walk over os.walk) over the symbolic os layer']

"""C15 - a WcMatch object can be killed, reset and re-run with prefix-exact results (E2: CrossHair on the real walker).

harness/xh_c15.py: symbolic hook-invocation index of kill() (k), symbolic is_aborted() poll index at which the abort flag flips
(j; the stated model of a kill from another thread), symbolic raising hook invocation (e), on a real scratch tree.
A counterexample is re-evaluated in a plain interpreter (the harness drives the public WcMatch API itself) before VIOLATION.
"""
from __future__ import annotations
import os

from engine import common, xh

LEVEL = 'model_checking'
HARNESS = os.path.join(common.VERIF, 'harness', 'xh_c15.py')


def run(ctx, harness=HARNESS, label='C15'):
    common.check_known_witnesses(ctx)
    timeout = 200 if ctx.quick else 3000
    import shutil
    import tempfile
    scratch = tempfile.mkdtemp(prefix='wcverif_c15_scratch_')
    os.environ['WCVERIF_SCRATCH'] = scratch          # harness trees live here; removed below even if CrossHair is killed on time-out
    try:
        results = xh.run_all(harness, timeout if not ctx.quick else 240, ctx.workers,
                             only=(lambda n: not n.endswith('_thorough')) if ctx.quick else None)
    finally:
        shutil.rmtree(scratch, ignore_errors=True)
        os.environ.pop('WCVERIF_SCRATCH', None)
    conf = 0
    samples = []
    for r in results:
        if r['name'].startswith('twin_'):
            if r['verdict'] != 'counterexample':
                ctx.inconclusive.append({'why': 'reachability twin was not refuted', 'cond': r['name'], 'out': r['output'][-300:]})
            continue
        if r['verdict'] == 'confirmed':
            conf += 1
            samples.append({'condition': r['name'], 'verdict': 'Confirmed over all paths', 'time_s': r['time_s']})
            continue
        if r['verdict'] == 'counterexample' and r['call']:
            try:
                val = xh.eval_call(harness, r['call'])[2]
            except Exception as ex:  # noqa: BLE001
                val = 'EXC ' + repr(ex)
            if val is False or (isinstance(val, str) and val.startswith('EXC')):
                rep = {'describe': f'{label} law violated: {r["call"]} -> {val}',
                       'steps': [{'as': 'ok', 'call': 'engine.replayfn.harness_call', 'args': [os.path.basename(harness), r['call']]}],
                       'assert': 'ok == True'}
                common.confirm(ctx, rep)
            else:
                ctx.inconclusive.append({'why': 'CrossHair counterexample does not reproduce in a plain interpreter', 'call': r['call']})
            continue
        ctx.inconclusive.append({'why': 'CrossHair verdict ' + r['verdict'], 'cond': r['name'], 'out': r['output'][-300:]})
    ctx.coverage.update({
        'evaluations': len(results), 'distinct_nontrivial': conf,
        'rule': 'one CrossHair condition per law (kill from hook k, flag flip before poll j, raising hook e, combined k x j); '
                'distinct_nontrivial = conditions confirmed over all paths',
        'samples': samples[:6], 'conditions': [{k: r[k] for k in ('name', 'verdict', 'time_s')} for r in results],
        'obligations': len(results), 'discharged': conf, 'solver_time_s': round(sum(r['time_s'] for r in results), 1),
        'bounds': {'tree': '10 files in 4 directories (one hidden file), pattern *.txt, RECURSIVE|HIDDEN', 'k,e': '-1..34 (20 hook invocations per run)',
                   'j': '-1..40 polls', 'combined': 'k<=12 x j<=14'},
        'functions_encoded': ['wcmatch.WcMatch._walk / imatch / match / kill / reset / is_aborted / _valid_file / _valid_folder'],
        'stubs': ['none (real os.walk on a scratch tree); thread kill modelled as a flag flip between two polls'],
        'exhaustive': not ctx.inconclusive,
        'outside_claim': ['real preemptive thread schedules', 'other trees / patterns (C14 covers selection)', 'histories longer than run-kill-run-reset-run-run'],
    })
    ctx.assumptions += ['CrossHair path exploration complete when it reports Confirmed over all paths', 'z3',
                        '_abort is only read through is_aborted() and written atomically (GIL): poll-point model of another thread']

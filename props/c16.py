"""C16 - pathlib methods are faithful views of wcmatch.glob (E3 symfs, metamorphic)."""
from __future__ import annotations
import random

from engine import common, fsdriver, symfs, e1

LEVEL = 'model_checking'


def combos(ctx, rnd):
    from wcmatch import glob as G
    S, D, E, F, L, ND, N, SD, NU, B, SP = G.GLOBSTAR, G.DOTGLOB, G.EXTGLOB, G.FOLLOW, G.GLOBSTARLONG, G.NODIR, G.NEGATE, G.SCANDOTDIR, G.NOUNIQUE, G.BRACE, G.SPLIT
    pats = ['*', '**', '*/x', 'x', '**/x', 'a/*', '.*', '**/.*', '*/', 'a', 'd', 'd/*', '*/*', '/a', '/*', '$ABS', 'L/*', '?', '@(a|b)/*', '!(a)', 'a/../*', './*',
            ['*', 'a/*'], ['*', '*/'], ['a', './a', 'a/', 'a/.'], '{b,/a}/*', '*|/a/*', ['*', '!a'], '*.x', 'lf', '**/f', 'a\\/x', 'd\\/f', 'd\\/d', 'c\\/x', 'q\\/f', 'b\\/c\\/x', 'd/f', 'c/x', 'q/f', 's1', 'Data/s1']
    fsets = [S, S | D, S | E, S | F, L, S | ND, S | SD, S | D | SD, S | NU, S | E | N, S | B, S | SP]
    names = list(symfs.templates())
    out = []
    for k, p in enumerate(pats):
        for j, f in enumerate(fsets if not ctx.quick else [fsets[0], fsets[1 + k % 3], fsets[4 + k % (len(fsets) - 4)], fsets[7]]):
            if isinstance(p, list) and f & (B | SP):
                continue
            if isinstance(p, str) and '{' in p:
                f |= B
            if isinstance(p, str) and '|' in p and '(' not in p:
                f |= SP
            if isinstance(p, list) and any(x.startswith('!') for x in p):
                f |= N
            ts = names if not ctx.quick else [names[(k + j + i * 3) % len(names)] for i in range(3)]
            for t in ts:
                tpl = symfs.templates()[t]
                out.append(('c16', t, (p, f, '')))
                if j == 0:
                    out.append(('c16', t, (p, f, tpl.slots[0])))
    return out


def describe(params):
    p, f, sub = params
    return f'pattern={p!r} flags={e1.flagnames("gl", f)} path object at {sub!r}'


def run(ctx):
    rnd = random.Random(ctx.seed * 7919 + 16)
    fsdriver.run_property(ctx, combos(ctx, rnd), 'c16_classify', 3000 if ctx.quick else 60000, describe)
    ctx.coverage['functions_encoded'] = ['wcmatch.pathlib.Path.glob/rglob, PurePath.match/globmatch/full_match, _translate_flags/_translate_path over the symbolic os layer']

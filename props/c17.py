"""C17 - case and platform flags select a consistent matching mode (E1, relational queries over real regexes).

Two symbolic names tied character-wise (ASCII case swap / separator swap / backslash->slash substitution) and the
regexes the real matcher executes; z3 decides that the verdicts cannot differ (or that two flag sets give equal languages).
"""
from __future__ import annotations
import random
import z3

from engine import common, gen, e1
from engine.rxsmt import SymStr, RxEnc, NotEncodable, SIGMA_I, FALSE, OR, AND

LEVEL = 'model_checking'

BS, SL = 92, 47


def tie_case(s, t):
    """t has the same length and each character equals s's or its ASCII case swap."""
    cons = [s.L == t.L]
    for a, b in zip(s.c, t.c):
        up = z3.And(z3.UGE(a, s.cv(65)), z3.ULE(a, s.cv(90)))
        lo = z3.And(z3.UGE(a, s.cv(97)), z3.ULE(a, s.cv(122)))
        cons.append(z3.Or(b == a, z3.And(up, b == a + s.cv(32)), z3.And(lo, b == a - s.cv(32))))
    return cons


def tie_sep(s, t):
    """t equals s except that separators may be respelled / <-> backslash."""
    cons = [s.L == t.L]
    for a, b in zip(s.c, t.c):
        sep_a = z3.Or(a == s.cv(SL), a == s.cv(BS))
        sep_b = z3.Or(b == s.cv(SL), b == s.cv(BS))
        cons.append(z3.If(sep_a, sep_b, b == a))
    return cons


def tie_bs_to_slash(s, t):
    """t = s with every backslash replaced by a slash."""
    cons = [s.L == t.L]
    for a, b in zip(s.c, t.c):
        cons.append(z3.If(a == s.cv(BS), b == s.cv(SL), b == a))
    return cons


def work(item, N):
    kind, mode, pats, f1, f2, extra = item
    isb = isinstance(pats, bytes) or (isinstance(pats, list) and pats and isinstance(pats[0], bytes))
    res = {'item': item, 'status': 'ok', 'sat': 0, 'unsat': 0, 'unknown': 0, 'solver_s': 0.0}
    N = extra.get('N', N)
    try:
        p2 = extra.get('pattern2', pats)
        r1 = e1.real_regexes(mode, pats, f1)
        r2 = e1.real_regexes(mode, p2, f2)
    except Exception as ex:  # noqa: BLE001
        res['status'] = 'compile_raises'
        res['exc'] = repr(ex)
        return res
    try:
        s = SymStr('s', N, isb)
        es = RxEnc(s)
        fs = es.matcher(*r1)
        cons = []
        if kind in ('lang_eq',):
            ft = es.matcher(*r2)
            cons = es.side_constraints() + [s.len_ge(1), z3.Xor(fs, ft)]
            syms = (s,)
        elif kind == 'literal_exact':
            cons = es.side_constraints() + [fs, z3.Not(s.eq_const(extra['text']))]
            syms = (s,)
        elif kind == 'prefix_must':
            # every accepted name starts with the drive (either case) followed by a separator
            d = extra['drive']
            okp = z3.And(s.len_ge(len(d) + 1),
                         *[z3.Or(s.c[i] == s.cv(ord(ch)), s.c[i] == s.cv(ord(ch.swapcase()))) if ch.isalpha() else
                           (z3.Or(s.c[i] == s.cv(SL), s.c[i] == s.cv(BS)) if ch in '/\\' else s.c[i] == s.cv(ord(ch)))
                           for i, ch in enumerate(d)])
            cons = es.side_constraints() + [fs, z3.Not(okp)] + [z3.ULE(ch_, s.cv(127)) for ch_ in s.c]   # ASCII case only (stated bound)
            syms = (s,)
        else:
            t = SymStr('t', N, isb)
            et = RxEnc(t)
            ft = et.matcher(*r2)
            tie = {'case_closed': tie_case, 'sep_closed': tie_sep, 'win_is_unix_ci': tie_bs_to_slash}[kind](s, t)
            cons = es.side_constraints() + et.side_constraints() + tie + [z3.Xor(fs, ft)]
            if not isb and (es.ci_used or et.ci_used):
                cons += s.alphabet_constraints(SIGMA_I) + t.alphabet_constraints(SIGMA_I)
            syms = (s, t)
    except NotEncodable as ex:
        res['status'] = 'not_encodable'
        res['exc'] = str(ex)
        return res
    r, m, dt = e1.solve(cons)
    res[r] += 1
    res['solver_s'] += dt
    if r == 'sat':
        res['status'] = 'counterexample'
        res['names'] = [x.eval(m) for x in syms]
    elif r != 'unsat':
        res['status'] = 'unknown'
    else:
        # twin: the first language is not empty (otherwise the closure claim is vacuous)
        r2_, m2, dt2 = e1.solve(es.side_constraints() + [fs])
        res['solver_s'] += dt2
        if r2_ == 'sat':
            w = s.eval(m2)
            res['acc'] = w
            if not e1.concrete_match(r1[0], r1[1], w):
                res['status'] = 'encoder_mismatch'
        elif r2_ == 'unsat':
            res['empty'] = True
        else:
            res['status'] = 'unknown'
    return res


def bracket_sep_asymmetric(nodes):
    """Some bracket expression contains exactly one of '/' and backslash (written or through a range)."""
    for n in nodes:
        if n[0] == 'cls':
            has = lambda v: any(a <= v <= b for a, b in n[3])
            if has(SL) != has(BS):
                return True
        elif n[0] == 'grp' and any(bracket_sep_asymmetric(a) for a in n[2]):
            return True
        elif n[0] == 'neg' and any(bracket_sep_asymmetric(a) for a in n[1]):
            return True
    return False


def swapcase_literals(nodes):
    out = []
    for n in nodes:
        if n[0] == 'lit' and n[1].isalpha():
            out.append(('lit', n[1].swapcase(), n[2]))
        elif n[0] == 'grp':
            out.append(('grp', n[1], tuple(swapcase_literals(a) for a in n[2])))
        elif n[0] == 'neg':
            out.append(('neg', tuple(swapcase_literals(a) for a in n[1])))
        else:
            out.append(n)
    return tuple(out)


def build_items(ctx, rnd):
    from wcmatch import fnmatch as F, glob as G
    items = []
    segs = gen.segment_pool('quick', rnd, ext=True)
    segs = segs[:: (6 if ctx.quick else 1)]
    paths = gen.path_pool('quick', rnd, ext=True)
    paths = paths[:: (6 if ctx.quick else 1)]
    for k, nodes in enumerate(segs):
        t = gen.render_nodes(nodes)
        E = F.EXTMATCH
        asym = {'bracket_sep_asym': True} if bracket_sep_asymmetric(nodes) else {}
        # case-insensitive modes are closed under ASCII case changes of the name
        for f in ((E | F.IGNORECASE), (E | F.FORCEWIN), (E | F.IGNORECASE | F.DOTMATCH)):
            if k % 3 == 0 or f == (E | F.IGNORECASE):
                items.append(('case_closed', 'fn', t, f, f, {}))
        # ... and under case changes of literal pattern text
        t2 = gen.render_nodes(swapcase_literals(nodes))
        if t2 != t:
            items.append(('lang_eq', 'fn', t, E | F.IGNORECASE, E | F.IGNORECASE, {'pattern2': t2}))
            items.append(('lang_eq', 'fn', t, E | F.FORCEWIN, E | F.FORCEWIN, {'pattern2': t2}))
        # CASE wins over IGNORECASE; FORCEWIN|FORCEUNIX cancel
        if k % 2 == 0:
            items.append(('lang_eq', 'fn', t, E | F.CASE | F.IGNORECASE, E | F.CASE | F.FORCEUNIX, {}))
            items.append(('lang_eq', 'fn', t, E | F.CASE | F.FORCEWIN | F.IGNORECASE, E | F.CASE | F.FORCEWIN, {}))
            items.append(('lang_eq', 'fn', t, E | F.FORCEWIN | F.FORCEUNIX, E, {}))
        # FORCEWIN: separators in the name interchangeable; Unix+IGNORECASE on the \->/ name for backslash-free patterns
        items.append(('sep_closed', 'fn', t, E | F.FORCEWIN, E | F.FORCEWIN, dict(asym)))
        if '\\' not in t:
            items.append(('win_is_unix_ci', 'fn', t, E | F.FORCEWIN, E | F.FORCEUNIX | F.IGNORECASE, dict(asym)))
        if k % 7 == 0:
            items.append(('case_closed', 'fn', t.encode('latin-1'), E | F.IGNORECASE, E | F.IGNORECASE, {}))
            items.append(('sep_closed', 'fn', t.encode('latin-1'), E | F.FORCEWIN, E | F.FORCEWIN, dict(asym)))
    # slash inside groups / brackets in fnmatch mode under FORCEWIN
    for t in ('@(a/b)', '!(a/c)', 'a/b', '*(a|/)b', '[a/]b', '[!/]b', 'a\\/b', 'a\\\\b', '?(/)a',
              # an escaped backslash (or escaped slash) is a separator inside a bracket expression as well
              'a[\\\\]b', 'a[!\\\\]b', 'a[\\/]b', 'a[x\\\\]b', '[\\\\]', '@(a[\\\\]b)', 'a[\\\\-]b', 'a[\\\\]', '[!\\/]a'):
        asym = {'bracket_sep_asym': True} if t in ('[a/]b', '[!/]b') else {}
        items.append(('sep_closed', 'fn', t, F.EXTMATCH | F.FORCEWIN, F.EXTMATCH | F.FORCEWIN, dict(asym)))
        items.append(('sep_closed', 'fn', t.encode(), F.EXTMATCH | F.FORCEWIN, F.EXTMATCH | F.FORCEWIN, dict(asym)))
        if '\\' not in t:
            items.append(('win_is_unix_ci', 'fn', t, F.EXTMATCH | F.FORCEWIN, F.EXTMATCH | F.FORCEUNIX | F.IGNORECASE, dict(asym)))
    for k, ast in enumerate(paths):
        t = gen.render_path(ast)
        E = G.EXTGLOB | G.GLOBSTAR
        items.append(('case_closed', 'gl', t, E | G.IGNORECASE, E | G.IGNORECASE, {}))
        items.append(('sep_closed', 'gl', t, E | G.FORCEWIN, E | G.FORCEWIN, {}))
        if k % 2 == 0:
            items.append(('case_closed', 'gl', t, E | G.FORCEWIN, E | G.FORCEWIN, {}))
            items.append(('lang_eq', 'gl', t, E | G.CASE | G.IGNORECASE, E | G.CASE | G.FORCEUNIX, {}))
            items.append(('lang_eq', 'gl', t, E | G.FORCEWIN | G.FORCEUNIX, E, {}))
        if '\\' not in t:
            items.append(('win_is_unix_ci', 'gl', t, E | G.FORCEWIN, E | G.FORCEUNIX | G.IGNORECASE, {}))
            # an escaped backslash in the pattern is a separator
            if '/' in t and k % 2 == 0:
                items.append(('lang_eq', 'gl', t, E | G.FORCEWIN, E | G.FORCEWIN, {'pattern2': t.replace('/', '\\\\')}))
            if '/' in t and k % 3 == 0 and not t.startswith('/'):       # (a leading double separator is a UNC prefix in Windows mode)
                # ... also directly in front of another separator (a run of separators counts as one)
                items.append(('lang_eq', 'gl', t, E | G.FORCEWIN, E | G.FORCEWIN, {'pattern2': t.replace('/', '\\\\/', 1)}))
                items.append(('lang_eq', 'gl', t, E | G.FORCEWIN, E | G.FORCEWIN, {'pattern2': t.replace('/', '/\\\\', 1)}))
    # literal text in case-sensitive mode matches only its exact spelling
    for text in ('a', 'ab', 'Ab', 'aB.c', 'A-b', 'xYz'):
        items.append(('literal_exact', 'fn', text, F.CASE, F.CASE, {'text': text}))
        items.append(('literal_exact', 'fn', text, F.FORCEUNIX, F.FORCEUNIX, {'text': text}))
        items.append(('literal_exact', 'fn', text, F.FORCEWIN | F.CASE, F.FORCEWIN | F.CASE, {'text': text}))
        items.append(('literal_exact', 'fn', text.encode(), F.CASE | F.IGNORECASE, F.CASE, {'text': text.encode()}))
    # drive / UNC prefixes: literal, case-insensitive even under CASE, separators interchangeable
    W = G.FORCEWIN | G.EXTGLOB | G.GLOBSTAR
    drives = [('c:/', 'c:/'), ('//host/share/', '//host/share/'), ('//?/UNC/host/share/', '//?/UNC/host/share/'), ('//?/c:/', '//?/c:/'),
              ('//./c:/', '//./c:/'), ('//?/GLOBAL/c:/', '//?/GLOBAL/c:/'), ('//?/GLOBAL/UNC/h/s/', '//?/GLOBAL/UNC/h/s/')]
    rests = ['a', '*', '**/a', 'a*/?', '@(a|b)', '']
    for d, _ in drives:
        for rest in rests:
            p = d + rest
            NN = {'N': len(d) + 4}
            for fl in (W, W | G.CASE):
                items.append(('lang_eq', 'gl', p, fl, fl, dict(NN, pattern2=d.swapcase() + rest)))
                items.append(('lang_eq', 'gl', p, fl, fl, dict(NN, pattern2=p.replace('/', '\\\\'))))
                items.append(('lang_eq', 'gl', p, fl, fl, dict(NN, pattern2=d.lower() + rest)))
                items.append(('sep_closed', 'gl', p, fl, fl, dict(NN)))
                if rest:
                    items.append(('prefix_must', 'gl', p, fl, fl, dict(NN, drive=d)))
            items.append(('lang_eq', 'gl', p.encode(), W | G.CASE, W | G.CASE, dict(NN, pattern2=(d.swapcase() + rest).encode())))
    return items


def classify_known(res):
    kind, mode, pats, f1, f2, extra = res['item']
    if kind in ('sep_closed', 'win_is_unix_ci') and mode == 'fn' and extra.get('bracket_sep_asym'):
        # fnmatch mode under FORCEWIN: a bracket expression holding exactly one of '/' and backslash
        return 'bracket-with-one-separator-forcewin'
    return None


def run(ctx):
    rnd = random.Random(ctx.seed * 7919 + 17)
    N = 6 if ctx.quick else 8
    live = common.check_known_witnesses(ctx)
    items = build_items(ctx, rnd)
    results = common.pmap(work, items, ctx.workers, extra=(N,))
    q = {'sat': 0, 'unsat': 0, 'unknown': 0}
    solver_s = 0.0
    distinct = set()
    kinds = {}
    samples = []
    region_hits = 0
    for res in results:
        for k in q:
            q[k] += res[k]
        solver_s += res['solver_s']
        kind, mode, pats, f1, f2, extra = res['item']
        st = res['status']
        if st == 'ok':
            kinds[kind] = kinds.get(kind, 0) + 1
            if not res.get('empty'):
                distinct.add(repr(res['item']))
            if len(samples) < 8 and res.get('acc') and kind not in [x['kind'] for x in samples]:
                samples.append({'kind': kind, 'mode': mode, 'pattern': pats, 'flags': [e1.flagnames(mode, f1), e1.flagnames(mode, f2)],
                                'extra': extra, 'verdict': 'unsat', 'accepted': res['acc']})
            continue
        if st in ('unknown', 'not_encodable', 'encoder_mismatch', 'compile_raises'):
            ctx.inconclusive.append({'why': st, 'item': res['item'], 'detail': res.get('exc')})
            continue
        region = classify_known(res)
        if region and region in live:
            region_hits += 1
            continue
        names = res['names']
        p2 = extra.get('pattern2', pats)
        if kind == 'literal_exact':
            rep = {'describe': f'C17 literal text must match only its exact spelling; {names[0]!r} accepted by {pats!r}',
                   'steps': [{'as': 'a', 'call': 'engine.replayfn.matcher_accepts', 'args': [mode, pats, names[0], {'flags': f1}]}],
                   'assert': 'a == False'}
        elif kind == 'prefix_must':
            rep = {'describe': f'C17 a drive/UNC pattern accepted {names[0]!r}, which does not start with the literal prefix {extra["drive"]!r}',
                   'steps': [{'as': 'a', 'call': 'engine.replayfn.matcher_accepts', 'args': [mode, pats, names[0], {'flags': f1}]}],
                   'assert': 'a == False'}
        else:
            n2 = names[1] if len(names) > 1 else names[0]
            rep = {'describe': f'C17 {kind}: verdicts must agree for {names[0]!r} under ({pats!r}, {e1.flagnames(mode, f1)}) and {n2!r} under '
                               f'({p2!r}, {e1.flagnames(mode, f2)})',
                   'steps': [{'as': 'a', 'call': 'engine.replayfn.matcher_accepts', 'args': [mode, pats, names[0], {'flags': f1}]},
                             {'as': 'b', 'call': 'engine.replayfn.matcher_accepts', 'args': [mode, p2, n2, {'flags': f2}]}],
                   'assert': 'a == b'}
        common.confirm(ctx, rep)
    ctx.coverage.update({
        'evaluations': q['sat'] + q['unsat'] + q['unknown'], 'distinct_nontrivial': len(distinct),
        'rule': 'one relational obligation per (kind, pattern, flag pair); non-trivial = first language non-empty',
        'samples': samples, 'kinds': kinds, 'obligations': len(results), 'queries': q, 'solver_time_s': round(solver_s, 2),
        'bounds': {'name_length_max': N, 'alphabet': 'SIGMA_I (0..0x24F + selected) for case-insensitive str regexes; all bytes', 'case': 'ASCII case only'},
        'functions_encoded': ['get_case/is_case_sensitive/is_unix_style/_get_win_drive via the regexes of the real compile() under the four flags'],
        'known_region_hits': region_hits, 'exhaustive': not ctx.inconclusive,
        'outside_claim': ['names longer than N', 'non-ASCII case pairs', 'REALPATH'],
    })
    ctx.assumptions += ['z3 QF_BV', 're._parser AST == what _sre executes; per-node case-insensitive classes computed by the real engine']

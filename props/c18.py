"""C18 - bytes and str inputs behave identically (E1 part: regex level; glob/WcMatch walk side is in the symfs checks).

Per (pattern(s), flags): the regexes executed for the bytes call and for the str call are encoded over a bytes name b and a
str name s tied by s[i] == b[i] (Latin-1 code units); z3 decides that the verdicts cannot differ.  Domain: 0..0x7F when
the mode is case-insensitive (bytes fold ASCII only), 0..0xFF otherwise.  translate/escape/is_magic: concrete equality.
"""
from __future__ import annotations
import random
import z3

from engine import common, gen, e1
from engine.rxsmt import SymStr, RxEnc, NotEncodable

LEVEL = 'model_checking'


def enc_pat(p):
    if isinstance(p, list):
        return [x.encode('latin-1') for x in p]
    return p.encode('latin-1') if p is not None else None


def work(item, N):
    mode, pats, flags, exclude = item
    m = e1.mod_of(mode)
    res = {'item': item, 'status': 'ok', 'sat': 0, 'unsat': 0, 'unknown': 0, 'solver_s': 0.0}
    bp, be = enc_pat(pats), enc_pat(exclude)
    # concrete clauses: translate returns the encoded regexes; escape/is_magic agree (on the pattern text as data)
    try:
        ts = m.translate(pats, flags=flags, exclude=exclude)
        s_exc = None
    except Exception as ex:  # noqa: BLE001
        ts, s_exc = None, type(ex).__name__
    try:
        tb = m.translate(bp, flags=flags, exclude=be)
        b_exc = None
    except Exception as ex:  # noqa: BLE001
        tb, b_exc = None, type(ex).__name__
    if s_exc or b_exc:
        if s_exc != b_exc:
            res['status'] = 'exception_differs'
            res['detail'] = (s_exc, b_exc)
        return res
    try:
        enc_ts = ([x.encode('latin-1') for x in ts[0]], [x.encode('latin-1') for x in ts[1]])
    except UnicodeEncodeError:
        enc_ts = None
    ascii_only = all(ord(c) < 128 for c in (''.join(pats) if isinstance(pats, list) else pats))
    if ascii_only and enc_ts is not None and (enc_ts[0] != list(tb[0]) or enc_ts[1] != list(tb[1])):
        # POSIX class tables legitimately differ in their upper bound (\xff vs \U0010ffff): compare languages below instead,
        # but the regex *texts* must agree when no such class is involved
        if '\\U0010ffff' not in repr(ts) and 'ÿ' not in repr(ts) and '\\xff' not in repr(tb):
            res['status'] = 'translate_text_differs'
            return res
    for single in (pats if isinstance(pats, list) else [pats]):
        try:
            if m.escape(single).encode('latin-1') != m.escape(single.encode('latin-1')):
                res['status'] = 'escape_differs'
                return res
            if m.is_magic(single, flags=flags) != m.is_magic(single.encode('latin-1'), flags=flags):
                res['status'] = 'is_magic_differs'
                return res
        except Exception as ex:  # noqa: BLE001
            res['status'] = 'escape_raises'
            res['detail'] = repr(ex)
            return res
    try:
        rs = e1.real_regexes(mode, pats, flags, exclude)
        rb = e1.real_regexes(mode, bp, flags, be)
    except Exception as ex:  # noqa: BLE001
        res['status'] = 'compile_raises'
        res['detail'] = repr(ex)
        return res
    ci = bool(flags & m.IGNORECASE) and not flags & m.CASE or bool(flags & m.FORCEWIN) and not flags & m.CASE
    try:
        s = SymStr('s', N, False)
        b = SymStr('b', N, True)
        es, eb = RxEnc(s), RxEnc(b)
        fs, fb = es.matcher(*rs), eb.matcher(*rb)
    except NotEncodable as ex:
        res['status'] = 'not_encodable'
        res['detail'] = str(ex)
        return res
    tie = [s.L == b.L] + [x == z3.ZeroExt(13, y) for x, y in zip(s.c, b.c)]
    if ci or es.ci_used:
        tie += [z3.ULE(y, b.cv(127)) for y in b.c]
    cons = es.side_constraints() + eb.side_constraints() + tie + [z3.Xor(fs, fb)]
    r, mdl, dt = e1.solve(cons)
    res[r] += 1
    res['solver_s'] += dt
    if r == 'sat':
        res['status'] = 'differs'
        res['name'] = b.eval(mdl)
        return res
    if r != 'unsat':
        res['status'] = 'unknown'
        return res
    r2, m2, dt2 = e1.solve(eb.side_constraints() + [fb])
    res['solver_s'] += dt2
    if r2 == 'sat':
        w = b.eval(m2)
        res['acc'] = w
        if not e1.concrete_match(rb[0], rb[1], w):
            res['status'] = 'encoder_mismatch'
    elif r2 == 'unsat':
        res['empty'] = True
    else:
        res['status'] = 'unknown'
    return res


def build_items(ctx, rnd):
    from wcmatch import fnmatch as F, glob as G
    items = []
    segs = gen.segment_pool('quick', rnd, ext=True)[:: (4 if ctx.quick else 1)]
    paths = gen.path_pool('quick', rnd, ext=True)[:: (4 if ctx.quick else 1)]
    ff = [F.EXTMATCH, F.EXTMATCH | F.DOTMATCH, F.EXTMATCH | F.IGNORECASE, F.EXTMATCH | F.FORCEWIN, F.EXTMATCH | F.NEGATE, F.EXTMATCH | F.SPLIT,
          F.EXTMATCH | F.RAWCHARS, 0, F.EXTMATCH | F.NEGATE | F.NEGATEALL, F.EXTMATCH | F.BRACE]
    gf = [G.EXTGLOB | G.GLOBSTAR, G.EXTGLOB | G.GLOBSTAR | G.DOTGLOB, G.EXTGLOB | G.GLOBSTAR | G.IGNORECASE, G.EXTGLOB | G.FORCEWIN | G.GLOBSTAR,
          G.EXTGLOB | G.NEGATE | G.GLOBSTAR, G.EXTGLOB | G.MATCHBASE, G.EXTGLOB | G.GLOBSTARLONG | G.NODIR, G.EXTGLOB | G.NODOTDIR | G.RAWCHARS]
    for k, nodes in enumerate(segs):
        t = gen.render_nodes(nodes)
        items.append(('fn', t, ff[0], None))
        items.append(('fn', t, ff[1 + k % (len(ff) - 1)], None))
    for k, b in enumerate(gen.bracket_pool(ctx.tier, rnd)[:: (3 if ctx.quick else 1)]):
        items.append(('fn', b[1], F.DOTMATCH, None))
        items.append(('fn', 'a' + b[1] + '*', F.DOTMATCH | (F.IGNORECASE if k % 2 else 0), None))
        if k % 4 == 0:
            items.append(('gl', b[1] + '/' + b[1], G.DOTGLOB, None))
    for k, ast in enumerate(paths):
        t = gen.render_path(ast)
        items.append(('gl', t, gf[0], None))
        items.append(('gl', t, gf[1 + k % (len(gf) - 1)], None))
    # lists, exclusions, inline negation incl. patterns spelled !( under NEGATE|EXTMATCH
    texts = [gen.render_nodes(n) for n in segs[::5]]
    for k in range(len(texts) - 2):
        a, b, c = texts[k], texts[k + 1], texts[k + 2]
        items.append(('fn', [a, b], F.EXTMATCH, [c]))
        items.append(('fn', [a, '!' + c], F.EXTMATCH | F.NEGATE, None))
        items.append(('fn', a + '|' + b, F.EXTMATCH | F.SPLIT | F.NEGATE, None))
        items.append(('fn', ['!' + c], F.EXTMATCH | F.NEGATE | F.NEGATEALL, None))
        items.append(('gl', [a, '!' + c], G.EXTGLOB | G.NEGATE | G.GLOBSTAR, None))
    for t in ['!(a)', '!(a|b)c', '!(*)', '!a', '-a', '!(a)|b', '{!(a),b}', '!(', '!()']:
        for fl in (F.EXTMATCH | F.NEGATE, F.EXTMATCH | F.NEGATE | F.SPLIT, F.EXTMATCH | F.NEGATE | F.BRACE, F.EXTMATCH | F.NEGATE | F.MINUSNEGATE, F.NEGATE):
            items.append(('fn', t, fl, None))
            items.append(('fn', ['*', t], fl, None))
        items.append(('gl', t, G.EXTGLOB | G.NEGATE | G.GLOBSTAR, None))
        items.append(('gl', ['**', t], G.EXTGLOB | G.NEGATE | G.GLOBSTAR | G.SPLIT, None))
    # malformed / degenerate constructs and non-ASCII (Latin-1) pattern characters
    odd = gen.odd_patterns() + ['[z-a]', '[!z-a]', '[b-a]x', '[!b-a]?', '[z-a][!z-a]', '[\xe9-\xe8]', '[!\xe9-\xe8]', '\xe9*', '[\xe0-\xef]', '[!\xe9]',
                                '[[:alpha:]\xe9]', '?\xff', '[\x80-\xff]', '[!\x80-\xff]', '*\xb5', '@(\xe9|a)', '[[:upper:]\xc0-\xde]']
    for t in odd:
        items.append(('fn', t, F.EXTMATCH | F.DOTMATCH, None))
        items.append(('fn', t, F.EXTMATCH, None))
        items.append(('gl', t, G.EXTGLOB | G.GLOBSTAR | G.DOTGLOB, None))
    # RAWCHARS escapes decode identically
    raw = ['\\x41*', '\\101?', '[\\x61-\\x63]', 'a\\x2fb', '\\n', '\\t*', '\\\\x41', '\\x2a', '\\xe9', '[\\xe0-\\xef]']
    # every escape form in every spelling (hex digits in lower, upper and mixed case; 1-3 digit octal; the single-letter escapes; the
    # escaped backslash that must stay untouched) - str and bytes decode through separate tables and regexes
    for cp in (0x4A, 0x6B, 0x2F, 0x5C, 0x2A, 0xAF, 0x0A, 0x5B, 0xFF):
        lo, up = '%02x' % cp, '%02X' % cp
        mixed = lo[0].upper() + lo[1] if lo[0].isalpha() else lo[0] + lo[1].upper()
        for h in dict.fromkeys((lo, up, mixed)):
            raw.append('\\x' + h + ('*' if cp % 2 else ''))
        raw.append('\\%o' % cp)
    raw += ['\\' + c for c in 'abfnrtv'] + ['\\\\', '\\\\*', '\\\\\\x41', 'a\\\\b', '[\\x4A-\\x4F]', '\\0', '\\7a', '\\x4', '\\x', '\\xg1']
    for t in dict.fromkeys(raw):
        items.append(('fn', t, F.RAWCHARS, None))
        items.append(('fn', t, F.RAWCHARS | F.EXTMATCH | F.IGNORECASE, None))
        items.append(('gl', t, G.RAWCHARS | G.GLOBSTAR, None))
    return items


def realpath_mixed():
    """REALPATH matching consults the file system: the TypeError must not depend on whether the name exists or is absolute."""
    from wcmatch import glob as G
    out = []
    names = [('relative existing', '.'), ('relative missing', 'zz-wcverif-missing'), ('absolute existing', '/'), ('absolute missing', '/zz-wcverif-missing/x')]
    for what, n in names:
        nb = n.encode()
        for desc, fn in [
            (f'globmatch(str {what}, str pattern, REALPATH, bytes root)', lambda n=n: G.globmatch(n, '*', flags=G.REALPATH, root_dir=b'.')),
            (f'globmatch(bytes {what}, bytes pattern, REALPATH, str root)', lambda nb=nb: G.globmatch(nb, b'*', flags=G.REALPATH, root_dir='.')),
            (f'globmatch(str {what}, bytes pattern, REALPATH)', lambda n=n: G.globmatch(n, b'*', flags=G.REALPATH)),
            (f'globmatch(bytes {what}, str pattern, REALPATH, bytes root)', lambda nb=nb: G.globmatch(nb, '*', flags=G.REALPATH, root_dir=b'.')),
            (f'globfilter([str {what}], str pattern, REALPATH, bytes root)', lambda n=n: G.globfilter([n], '**', flags=G.REALPATH | G.GLOBSTAR, root_dir=b'.')),
            (f'compile(str, REALPATH).match(str {what}, bytes root)', lambda n=n: G.compile('*', flags=G.REALPATH).match(n, root_dir=b'.')),
        ]:
            out.append((desc, fn))
    return out


def mixed_type_cases():
    """Concrete clause: a str name/root with a bytes pattern (or the reverse) raises TypeError."""
    from wcmatch import fnmatch as F, glob as G
    out = []
    for desc, fn in [
        ('fnmatch(str, bytes)', lambda: F.fnmatch('a', b'*')), ('fnmatch(bytes, str)', lambda: F.fnmatch(b'a', '*')),
        ('globmatch(str, bytes)', lambda: G.globmatch('a', b'*')), ('globmatch(bytes, str)', lambda: G.globmatch(b'a', '*')),
        ('filter(str names, bytes)', lambda: F.filter(['a'], b'*')), ('globfilter(bytes names, str)', lambda: G.globfilter([b'a'], '*')),
        ('compile(bytes).match(str)', lambda: F.compile(b'*').match('a')), ('glob(str pattern, bytes root)', lambda: G.glob('*', root_dir=b'.')),
        ('glob(bytes pattern, str root)', lambda: G.glob(b'*', root_dir='.')), ('globmatch REALPATH str/bytes root', lambda: G.globmatch('a', '*', flags=G.REALPATH, root_dir=b'.')),
    ] + realpath_mixed():
        try:
            r = fn()
            out.append((desc, 'returned ' + repr(r)))
        except TypeError:
            pass
        except Exception as ex:  # noqa: BLE001
            out.append((desc, 'raised ' + type(ex).__name__))
    return out


def run(ctx):
    rnd = random.Random(ctx.seed * 7919 + 18)
    N = 5 if ctx.quick else 7
    common.check_known_witnesses(ctx)
    items = build_items(ctx, rnd)
    results = common.pmap(work, items, ctx.workers, extra=(N,))
    q = {'sat': 0, 'unsat': 0, 'unknown': 0}
    solver_s = 0.0
    distinct = set()
    samples = []
    for res in results:
        for k in q:
            q[k] += res[k]
        solver_s += res['solver_s']
        mode, pats, flags, exclude = res['item']
        st = res['status']
        if st == 'ok':
            if not res.get('empty') and (res['unsat'] or res['sat']):
                distinct.add(repr(res['item']))
            if len(samples) < 6 and res.get('acc') and len(res['acc']) > 1:
                samples.append({'mode': mode, 'patterns': pats, 'flags': e1.flagnames(mode, flags), 'exclude': exclude, 'verdict': 'unsat: str and bytes '
                                'verdicts agree for all names <= N over the tied alphabet', 'accepted_bytes_name': res['acc']})
            continue
        if st in ('unknown', 'not_encodable', 'encoder_mismatch'):
            ctx.inconclusive.append({'why': st, 'item': res['item'], 'detail': res.get('detail')})
            continue
        kw = {'flags': flags}
        if exclude is not None:
            kw['exclude'] = exclude
        rep = {'describe': f'C18 {st}: bytes and str calls must agree for {pats!r} [{e1.flagnames(mode, flags)}]' + (f' on name {res.get("name")!r}' if 'name' in res else ''),
               'steps': [{'as': 'ok', 'call': 'engine.replayfn.bytes_str_agree', 'args': [mode, pats, kw, res.get('name')]}],
               'assert': 'ok == True'}
        common.confirm(ctx, rep)
    for desc, what in mixed_type_cases():
        rep = {'describe': f'C18 mixing str and bytes must raise TypeError: {desc} {what}',
               'steps': [{'as': 'bad', 'call': 'engine.replayfn.mixed_type_failures', 'args': []}], 'assert': 'bad == []'}
        common.confirm(ctx, rep)
        break
    walk = walk_side(ctx)
    ctx.coverage.update({
        'evaluations': q['sat'] + q['unsat'] + q['unknown'] + walk['evaluations'], 'distinct_nontrivial': len(distinct) + walk['distinct_nontrivial'],
        'walk_side': {k: walk[k] for k in ('evaluations', 'distinct_nontrivial', 'combos', 'solver_calls', 'combos_not_exhausted_within_path_cap',
                                           'traces_validated_against_impl', 'samples')},
        'rule': 'one obligation per (mode, patterns, flags, exclude): the str-call regexes and the bytes-call regexes give the same verdict on '
                'every Latin-1-tied pair of names; plus concrete equality of translate/escape/is_magic and the TypeError clause',
        'samples': samples, 'obligations': len(results), 'queries': q, 'solver_time_s': round(solver_s, 2),
        'bounds': {'name_length_max': N, 'alphabet': '0..0xFF tied byte/code point (0..0x7F in case-insensitive modes)'},
        'functions_encoded': ['latin-1 round trips in WcParse.parse / WcSplit.split; paired str/bytes constants; posix tables (via executed regexes)'],
        'exhaustive': not ctx.inconclusive, 'outside_claim': ['names longer than N', 'trees larger than the symfs templates'],
    })
    ctx.assumptions += ['z3 QF_BV', 're._parser AST == what _sre executes']


def walk_side(ctx):
    """E3: glob() and WcMatch with str vs bytes root and patterns on the same symbolic tree."""
    from engine import fsdriver
    from wcmatch import glob as G, wcmatch as W
    S, D, MK, F, E = G.GLOBSTAR, G.DOTGLOB, G.MARK, G.FOLLOW, G.EXTGLOB
    combos = []
    ts = ['flat', 'nest', 'link1', 'hid', 'case', 'same'] if ctx.quick else ['flat', 'nest', 'link1', 'link2', 'hid', 'hid2', 'case', 'same', 'sib', 'dotlink', 'linkfile']
    for p, f in [('*', 0), ('**', S), ('**/x', S), ('*/x', 0), ('a/*', MK), ('**/', S), ('.*', D), (['*', 'a/*'], S), ('@(a|b)/*', E), ('**', S | F), ('[a-x]*', 0), ('a/', 0)]:
        for t in ts:
            combos.append(('c18fs', t, ('glob', p, f)))
    for p, f in [(None, W.RECURSIVE), (None, W.RECURSIVE | W.HIDDEN | W.SYMLINKS), ('', W.RECURSIVE), ('*', W.RECURSIVE), ('*x|f', W.RECURSIVE | W.HIDDEN), ('**/x', W.RECURSIVE | W.FILEPATHNAME | W.GLOBSTAR), ('!x', W.RECURSIVE | W.SYMLINKS | W.HIDDEN)]:
        for t in ts:
            combos.append(('c18fs', t, ('wcmatch', p, f)))
    saved = ctx.coverage
    ctx.coverage = {}
    fsdriver.run_property(ctx, combos, None, 3000 if ctx.quick else 60000, lambda p: f'{p[0]} pattern={p[1]!r} flags={p[2]:#x}', known_from=('C18',))
    walk = ctx.coverage
    ctx.coverage = saved
    return walk

"""C19 - results never depend on call history, caching, sharing or threads (bounded histories + E1 language equality).

Histories: every sequence (bounded length) over a pool of calls built to collide in the cache-key space (same text under
different flags, str vs bytes, translate vs compile, fnmatch vs glob, REALPATH matching before/after the tree or the working
directory changes), executed in ONE interpreter after a prelude of 300 distinct patterns (evicts the 256-entry memo), and
compared call by call with the *cold* answer (the same call alone in a fresh interpreter).  Regex-valued answers are compared
by language (z3, engine/rxsmt) - not by text.  Matcher algebra: ==, hash, pickle/copy round trips, immutability, with
'accept different names' decided by z3.  The thread clause is NOT decided (no symbolic model of the CPython scheduler).
"""
from __future__ import annotations
import copy
import itertools
import json
import os
import pickle
import random
import shutil
import subprocess
import sys
import tempfile
import z3

from engine import common, e1
from engine.rxsmt import SymStr, RxEnc, NotEncodable

LEVEL = 'model_checking'


def call_pool():
    """(id, kind, args): kind in fn_match, gl_match, fn_translate, gl_translate, fn_compile_rx, gl_compile_rx, real_match."""
    from wcmatch import fnmatch as F, glob as G
    P = []
    P.append(('m1', 'fn_match', ('a.txt', '*.txt', 0)))
    P.append(('m2', 'fn_match', ('a.TXT', '*.txt', F.IGNORECASE)))
    P.append(('m3', 'fn_match', ('a.TXT', '*.txt', F.CASE)))
    P.append(('m4', 'fn_match', (b'a.txt', b'*.txt', 0)))
    P.append(('m5', 'fn_match', ('.a.txt', '*.txt', 0)))
    P.append(('m6', 'fn_match', ('.a.txt', '*.txt', F.DOTMATCH)))
    P.append(('m7', 'gl_match', ('d/a.txt', '*.txt', 0)))
    P.append(('m8', 'gl_match', ('d/a.txt', '*.txt', G.MATCHBASE)))
    P.append(('m9', 'gl_match', ('d/a.txt', '**/*.txt', G.GLOBSTAR)))
    P.append(('m10', 'gl_match', ('d/a.txt', '**/*.txt', 0)))
    P.append(('m11', 'fn_match', ('a|b', 'a|b', 0)))
    P.append(('m12', 'fn_match', ('a', 'a|b', F.SPLIT)))
    P.append(('m13', 'fn_match', ('!(a)', '!(a)', 0)))
    P.append(('m14', 'fn_match', ('b', '!(a)', F.EXTMATCH)))
    P.append(('t1', 'fn_translate', ('*.txt', 0)))
    P.append(('t2', 'gl_translate', ('*.txt', 0)))
    P.append(('t3', 'fn_translate', ('*.txt', F.IGNORECASE)))
    P.append(('t4', 'fn_translate', ('+(a|b)', F.EXTMATCH)))
    P.append(('c1', 'fn_compile_rx', ('+(a|b)', F.EXTMATCH)))
    P.append(('c2', 'gl_compile_rx', ('**/*.txt', G.GLOBSTAR)))
    P.append(('c3', 'gl_compile_rx', ('**/*.txt', G.GLOBSTAR | G.REALPATH)))
    P.append(('c4', 'fn_compile_rx', (b'+(a|b)', F.EXTMATCH)))
    # REALPATH matching: depends on the tree and the working directory only
    P.append(('r1', 'real_match', ('root/lnk/c/f.txt', '**/f.txt', G.GLOBSTAR | G.REALPATH, 'cwd')))
    P.append(('r2', 'real_match', ('lnk/c/f.txt', '**/f.txt', G.GLOBSTAR | G.REALPATH, 'root_dir')))
    P.append(('r3', 'real_match', ('lnk/c/f.txt', '**/f.txt', G.GLOBSTAR | G.REALPATH | G.FOLLOW, 'root_dir')))
    P.append(('r4', 'real_match', ('real/c/f.txt', '**/f.txt', G.GLOBSTAR | G.REALPATH, 'root_dir')))
    P.append(('r5', 'real_match', ('real/c/f.txt', 'real/**', G.GLOBSTAR | G.REALPATH, 'dir_fd')))
    P.append(('x1', 'gl_match_ex', ('dir/', '*', 0, 'x*')))
    P.append(('x2', 'gl_match_ex', ('dir/', '*', G.NODIR, 'x*')))
    P.append(('x3', 'gl_match_ex', ('xdir', '*', G.NODIR, 'x*')))
    P.append(('x4', 'gl_compile_rx_ex', ('*', G.NODIR, 'x*')))
    P.append(('x5', 'gl_compile_rx_ex', ('*', 0, 'x*')))
    P.append(('x6', 'gl_compile_rx_ex', ('*', G.DOTGLOB, ['x*'])))
    P.append(('x7', 'fn_match_ex', ('.xa', '*', 0, 'x*')))
    P.append(('x8', 'fn_match_ex', ('.xa', '.*', 0, '*a')))
    # pathlib entry points (right-anchored match with the internal multi-level match-base flag); absolute and relative patterns under the SAME flags
    P.append(('p1', 'pl_match', ('/etc/passwd', '/etc/*', 0)))
    P.append(('p2', 'pl_match', ('src/pkg/notes.txt', '*.txt', 0)))
    P.append(('p3', 'pl_match', ('src/pkg/notes.txt', 'pkg/*.txt', 0)))
    P.append(('p4', 'pl_globmatch', ('src/pkg/notes.txt', '*.txt', 0)))
    P.append(('p5', 'pl_globmatch', ('/etc/passwd', '/etc/*', 0)))
    P.append(('p6', 'pl_match', ('a/b/c.py', '**/c.py', G.GLOBSTAR)))
    P.append(('p7', 'pl_match_win', ('c:/x/y.txt', 'c:/x/*', 0)))
    P.append(('p8', 'pl_match_win', ('x/y.txt', '*.TXT', 0)))
    # every public flag (and the limit) must take part in whatever key a cache uses: the same text with and without the flag, on an
    # input where the flag changes the answer
    for k, (name, pat, f0, f1) in enumerate([
            ('!a', '!a', 0, F.NEGATE), ('-a', '-a', F.NEGATE, F.NEGATE | F.MINUSNEGATE), ('a', '{a,b}', 0, F.BRACE), ('A', '\\x41', 0, F.RAWCHARS),
            ('b', '!a', F.NEGATE, F.NEGATE | F.NEGATEALL), ('a/b', 'a\\\\b', F.FORCEUNIX, F.FORCEWIN), ('A', 'a', F.FORCEUNIX, F.FORCEWIN), ('a', '@(a)', 0, F.EXTMATCH)]):
        P.append((f'k{k}a', 'fn_match', (name, pat, f0)))
        P.append((f'k{k}b', 'fn_match', (name, pat, f1)))
    for k, (name, pat, f0, f1) in enumerate([
            ('..', '.*', 0, G.NODOTDIR), ('a/b/c', '***/c', G.GLOBSTAR, G.GLOBSTARLONG), ('.a', '*', 0, G.DOTGLOB), ('a', '@(a)', 0, G.EXTGLOB), ('a/', '*', 0, G.NODIR),
            ('a\\b', 'a/b', G.FORCEUNIX, G.FORCEWIN), ('x/a', '!d/*', G.NEGATE, G.NEGATE | G.NEGATEALL), ('a/b', '{a,b}/b', 0, G.BRACE), ('a', 'a|b', 0, G.SPLIT),
            ('x/a', 'a', 0, G.MATCHBASE), ('A/x', 'a/x', 0, G.IGNORECASE)]):
        P.append((f'q{k}a', 'gl_match', (name, pat, f0)))
        P.append((f'q{k}b', 'gl_match', (name, pat, f1)))
    P.append(('l1', 'fn_match_limit', ('a', '{a,b,c}', F.BRACE, 2)))
    P.append(('l2', 'fn_match_limit', ('a', '{a,b,c}', F.BRACE, 0)))
    P.append(('l3', 'fn_match_limit', ('a', '{a,b,c}', F.BRACE, 1000)))
    P.append(('g1', 'glob', ('**/f.txt', G.GLOBSTAR)))
    P.append(('g2', 'glob', ('*/c/*', 0)))
    return P


STATES = ('s0', 's1')      # s0: lnk -> real (symlink), real/ is a directory;   s1: the two swap roles (real -> lnk, lnk/ is the directory)


def build_state(base, state):
    """Two trees under base/s0 and base/s1 with the same paths but different link structure; `root` symlink selects one."""
    for st in STATES:
        r = os.path.join(base, st)
        if os.path.isdir(r):
            continue
        a, b = ('real', 'lnk') if st == 's0' else ('lnk', 'real')
        os.makedirs(os.path.join(r, a, 'c'))
        open(os.path.join(r, a, 'c', 'f.txt'), 'w').close()
        os.symlink(a, os.path.join(r, b))
    link = os.path.join(base, 'root')
    if os.path.lexists(link):
        os.unlink(link)
    os.symlink(state, link)


def do_call(kind, args, base):
    from wcmatch import fnmatch as F, glob as G
    if kind == 'fn_match':
        return F.fnmatch(args[0], args[1], flags=args[2])
    if kind == 'gl_match':
        return G.globmatch(args[0], args[1], flags=args[2])
    if kind == 'fn_translate':
        return [list(x) for x in F.translate(args[0], flags=args[1])]
    if kind == 'gl_translate':
        return [list(x) for x in G.translate(args[0], flags=args[1])]
    if kind == 'gl_match_ex':
        return G.globmatch(args[0], args[1], flags=args[2], exclude=args[3])
    if kind == 'fn_match_ex':
        return F.fnmatch(args[0], args[1], flags=args[2], exclude=args[3])
    if kind == 'gl_compile_rx_ex':
        m = G.compile(args[0], flags=args[1], exclude=args[2])._matcher
        return [[p.pattern for p in m._include], [p.pattern for p in (m._exclude or ())]]
    if kind in ('fn_compile_rx', 'gl_compile_rx'):
        m = (F if kind[0] == 'f' else G).compile(args[0], flags=args[1])._matcher
        return [[p.pattern for p in m._include], [p.pattern for p in (m._exclude or ())]]
    if kind == 'fn_match_limit':
        try:
            return F.fnmatch(args[0], args[1], flags=args[2], limit=args[3])
        except Exception as ex:  # noqa: BLE001
            return 'EXC:' + type(ex).__name__
    if kind in ('pl_match', 'pl_globmatch', 'pl_match_win'):
        from wcmatch import pathlib as PL
        cls = PL.PureWindowsPath if kind.endswith('_win') else PL.PurePosixPath
        obj = cls(args[0])
        return (obj.globmatch if kind == 'pl_globmatch' else obj.match)(args[1], flags=args[2])
    root = os.path.join(base, 'root')
    if kind == 'real_match':
        name, pat, flags, via = args
        if via == 'cwd':
            old = os.getcwd()
            os.chdir(base)
            try:
                return G.globmatch(name, pat, flags=flags)
            finally:
                os.chdir(old)
        if via == 'dir_fd':
            fd = os.open(root, os.O_RDONLY)
            try:
                return G.globmatch(name, pat, flags=flags, dir_fd=fd)
            finally:
                os.close(fd)
        return G.globmatch(name, pat, flags=flags, root_dir=root)
    if kind == 'glob':
        return sorted(G.glob(args[0], flags=args[1], root_dir=root))
    raise ValueError(kind)


def prelude():
    from wcmatch import fnmatch as F, glob as G
    for i in range(300):
        F.fnmatch('x', f'p{i}*[ab]', flags=F.EXTMATCH if i % 2 else 0)
        if i % 3 == 0:
            G.globmatch('x/y', f'**/q{i}?', flags=G.GLOBSTAR)


def cold_worker(job):
    """One (state, call id) evaluated alone in a fresh interpreter."""
    base, state, cid = job
    code = ('import sys, json; sys.path[:0] = [%r, %r]; from props import c19; from engine.common import enc; '
            'pool = {c[0]: c for c in c19.call_pool()}; c = pool[%r]; c19.build_state(%r, %r); '
            'print("RESULT" + json.dumps(enc(c19.do_call(c[1], c[2], %r))))') % (common.REPO, common.VERIF, cid, base, state, base)
    p = subprocess.run([sys.executable, '-c', code], capture_output=True, text=True, timeout=120, env=dict(os.environ, PYTHONDONTWRITEBYTECODE='1'))
    for line in p.stdout.splitlines():
        if line.startswith('RESULT'):
            return (state, cid), common.dec(json.loads(line[6:]))
    return (state, cid), 'COLD-FAILED: ' + p.stderr[-300:]


def same_language(r1, r2, N=6):
    """Two [[include regexes], [exclude regexes]] answers accept the same names (z3); texts equal is the fast path."""
    if r1 == r2:
        return True, None
    isb = e1.is_bytes_regexes(r1[0], r1[1])
    s = SymStr('s', N, isb)
    enc = RxEnc(s)
    f1, f2 = enc.matcher(r1[0], r1[1]), enc.matcher(r2[0], r2[1])
    r, m, _ = e1.solve(enc.side_constraints() + [z3.Xor(f1, f2)])
    if r == 'unsat':
        return True, None
    if r == 'sat':
        return False, s.eval(m)
    return None, None


def history_worker(job):
    """Run one batch of histories in this (forked, otherwise fresh) process; return mismatches."""
    base, histories, cold = job
    pool = {c[0]: c for c in call_pool()}
    bad = []
    n = 0
    log = []                 # every call of this process so far: hidden state may have been planted by an earlier history
    prelude()
    for h in histories:
        if bad:
            break
        for k, (state, cid) in enumerate(h):
            log.append((state, cid))
            build_state(base, state)
            _id, kind, args = pool[cid]
            try:
                got = common.dec(json.loads(json.dumps(common.enc(do_call(kind, args, base)))))
            except Exception as ex:  # noqa: BLE001
                got = 'EXC:' + type(ex).__name__
            n += 1
            want = cold[(state, cid)]
            if got == want:
                continue
            if kind.endswith('translate') or kind.endswith('compile_rx') or kind.endswith('compile_rx_ex'):
                try:
                    same, w = same_language(got, want)
                except (NotEncodable, Exception):  # noqa: BLE001
                    same, w = None, None
                if same:
                    continue
                bad.append({'history': list(log), 'last': h[:k + 1], 'got': got, 'cold': want, 'witness': w})
            else:
                bad.append({'history': list(log), 'last': h[:k + 1], 'got': got, 'cold': want})
            break
    return bad, n


def deep_state(obj, depth=0, seen=None):
    """Snapshot of everything reachable from a matcher through __slots__ / __dict__ / containers (regex objects by pattern and flags)."""
    import re
    seen = seen if seen is not None else set()
    if isinstance(obj, (str, bytes, int, float, bool, type(None))):
        return obj
    if isinstance(obj, re.Pattern):
        return ('re', obj.pattern, obj.flags)
    if id(obj) in seen or depth > 6:
        return '...'
    seen.add(id(obj))
    if isinstance(obj, (tuple, list)):
        return tuple(deep_state(x, depth + 1, seen) for x in obj)
    if isinstance(obj, dict):
        return tuple(sorted((repr(k), deep_state(v, depth + 1, seen)) for k, v in obj.items()))
    out = [type(obj).__name__]
    names = []
    for klass in type(obj).__mro__:
        names += list(getattr(klass, '__slots__', ()))
    names += list(getattr(obj, '__dict__', {}))
    for n in dict.fromkeys(names):
        try:
            out.append((n, deep_state(getattr(obj, n), depth + 1, seen)))
        except AttributeError:
            out.append((n, '<unset>'))
    return tuple(out)


class Reentrant(os.PathLike):
    """A path-like argument whose __fspath__ uses the very matcher it is being handed to."""

    def __init__(self, value, matcher, inner, role):
        self.value, self.matcher, self.inner, self.role = value, matcher, inner, role

    def __fspath__(self):
        if self.role == 'root':
            self.matcher.match(self.inner, root_dir='.')
        else:
            self.matcher.match(self.inner)
        return self.value


def algebra(ctx):
    """Matcher algebra on pools of (patterns, flags, exclude); returns (violations, count, queries)."""
    from wcmatch import fnmatch as F, glob as G
    specs = []
    for mod, pats in ((F, ['*.txt', '*.TXT', 'a|b', ['a', 'b'], '+(a|b)', '!(a)', b'*.txt', '[a-c]', '.*', '*']),
                      (G, ['**/*.txt', '*/x', '**', ['a/*', 'b/*'], '!(a)/x', b'**/*.txt', '*', '**/x', '/abs/*.txt', '/abs/data/x', ['/abs/a', '/abs/b'], b'/abs/*'])):
        fl = [0, mod.IGNORECASE, mod.DOTMATCH if mod is F else mod.DOTGLOB, mod.EXTMATCH if mod is F else mod.EXTGLOB]
        if mod is G:
            fl += [G.GLOBSTAR, G.GLOBSTAR | G.REALPATH, G.GLOBSTAR | G.REALPATH | G.FOLLOW, G.GLOBSTAR | G.FOLLOW, G.GLOBSTARLONG | G.REALPATH | G.FOLLOW, G.REALPATH,
                   G.NODIR, G.NODIR | G.REALPATH, G.MATCHBASE, G.FOLLOW]
        for p in pats:
            for f in fl:
                for ex in (None, 'x*' if not isinstance(p, bytes) and not (isinstance(p, list)) else None):
                    specs.append((mod, p, f, ex))
    bad = []
    objs = []
    for mod, p, f, ex in specs:
        try:
            m1 = mod.compile(p, flags=f, exclude=ex)
            m2 = mod.compile(p, flags=f, exclude=ex)
        except Exception as e:  # noqa: BLE001
            continue
        d = (mod.__name__, p, f, ex)
        m3 = mod.compile(p, flags=f, exclude=ex)
        if not (m1 == m2 == m3 and not (m1 != m2) and hash(m1) == hash(m2) == hash(m3) and len(m1._matcher) == len(m3._matcher)):
            bad.append(('equal arguments give unequal / differently hashed matchers', d))
        for name, clone in (('pickle', pickle.loads(pickle.dumps(m1))), ('copy', copy.copy(m1)), ('deepcopy', copy.deepcopy(m1))):
            if not (clone == m1 and hash(clone) == hash(m1)):
                bad.append((f'{name} round trip is not equal / hash-equal to the original', d))
            a, b = m1._matcher, clone._matcher
            if (a._include, a._exclude, a._real, a._path, a._follow) != (b._include, b._exclude, b._real, b._path, b._follow):
                bad.append((f'{name} round trip changed the matcher state', d))
        for attr in ('_matcher', '_hash', 'foo'):
            try:
                setattr(m1, attr, 1)
                bad.append((f'attribute {attr} is assignable', d))
            except AttributeError:
                pass
        names = ['a.txt', 'A.TXT', 'a', 'b', '.a', 'a/x', 'b/x', 'x'] if not isinstance(p, bytes) and not (isinstance(p, list) and isinstance(p[0], bytes)) else [b'a.txt', b'a/x']
        if not (f & getattr(mod, 'REALPATH', 0)):
            # immutable all the way down: nothing reachable from the matcher changes when it is used
            before = deep_state(m1)
            r1 = [m1.match(n) for n in names]
            m1.filter(names)
            if deep_state(m1) != before:
                bad.append(('using the matcher (match/filter) changed state reachable from it', d))
            # ... so a call made while another call on the same object is in progress (here: from the __fspath__ of an argument)
            # cannot disturb it - the single-threaded shadow of sharing one matcher between threads
            if not isinstance(names[0], bytes):
                for inner, outer in (('b', 'a.txt'), ('a.txt', 'b'), ('a/x', 'x')):
                    want = m1.match(outer)
                    if m1.match(Reentrant(outer, m1, inner, 'name')) != want or bool(m1.filter([Reentrant(outer, m1, inner, 'name')])) != want:
                        bad.append((f'a nested call on the same matcher (from __fspath__ of the name) changed the answer for {outer!r}', d))
                        break
        elif not isinstance(names[0], bytes):
            before = deep_state(m1)
            for inner, outer in (('zz-missing', '.'), ('.', 'zz-missing')):
                want = m1.match(outer, root_dir='.')
                if m1.match(outer, root_dir=Reentrant('.', m1, inner, 'root')) != want:
                    bad.append((f'a nested call on the same matcher (from __fspath__ of root_dir) changed the answer for {outer!r}', d))
                    break
            if deep_state(m1) != before:
                bad.append(('using the matcher (REALPATH match) changed state reachable from it', d))
        if not (f & getattr(mod, 'REALPATH', 0)):
            r1 = [m1.match(n) for n in names]
            if r1 != [m1.match(n) for n in names] or m1.filter(names) != [n for n, r in zip(names, r1) if r] or m1.filter(names) != m1.filter(names):
                bad.append(('repeated match/filter calls disagree', d))
        objs.append((d, m1))
    # never equal when they accept different names: decided by z3 for pairs that compare equal / unequal
    q = 0
    rnd = random.Random(ctx.seed + 19)
    pairs = [(objs[i], objs[j]) for i in range(len(objs)) for j in range(i + 1, len(objs)) if type(objs[i][1]) is type(objs[j][1]) and objs[i][1] == objs[j][1]]
    rnd.shuffle(pairs)           # every pair that compares equal is examined (there are few); the z3 language check is capped
    for (d1, a), (d2, b) in pairs[: (600 if ctx.quick else 6000)]:
        if a == b:
            x, y = a._matcher, b._matcher
            if (x._real, x._path, x._follow) != (y._real, y._path, y._follow):
                # the regexes alone do not tell: REALPATH / FOLLOW change which names are accepted on a real tree
                bad.append((f'matchers compare equal but differ in real/path/follow state ({(x._real, x._path, x._follow)} vs {(y._real, y._path, y._follow)})', (d1, d2)))
            r1 = e1.matcher_regexes(a)
            r2 = e1.matcher_regexes(b)
            try:
                same, w = same_language(r1, r2)
            except Exception:  # noqa: BLE001
                continue
            q += 1
            if same is False:
                bad.append((f'matchers compare equal but accept different names (e.g. {w!r})', (d1, d2)))
            if hash(a) != hash(b):
                bad.append(('equal matchers hash differently', (d1, d2)))
    return bad, len(objs), q


def run(ctx):
    rnd = random.Random(ctx.seed * 7919 + 19)
    common.check_known_witnesses(ctx)
    base = tempfile.mkdtemp(prefix='wcverif_c19_')
    try:
        pool = call_pool()
        jobs = [(base + f'/cold_{st}_{c[0]}', st, c[0]) for st in STATES for c in pool]
        for j in jobs:
            os.makedirs(j[0], exist_ok=True)
        cold = dict(common.pmap(cold_worker, jobs, ctx.workers, chunk=1))
        failed = [k for k, v in cold.items() if isinstance(v, str) and v.startswith('COLD-FAILED')]
        if failed:
            raise common.HarnessError(f'cold evaluation failed for {failed[:3]}: {cold[failed[0]]}')
        ids = [c[0] for c in pool]
        L = 3 if ctx.quick else 4
        # pairs and triples of (state, call): all ordered pairs, sampled triples/quadruples, every history ends in every call at least once
        items = [(st, cid) for st in STATES for cid in ids]
        hist = [list(t) for t in itertools.product(items, repeat=2)]
        more = 2500 if ctx.quick else 30000
        for _ in range(more):
            hist.append([rnd.choice(items) for _ in range(L)])
        rnd.shuffle(hist)
        nb = ctx.workers * 2
        batches = [(base + f'/w{b}', hist[b::nb], cold) for b in range(nb)]
        for b in batches:
            os.makedirs(b[0], exist_ok=True)
        res = common.pmap(history_worker, batches, ctx.workers, chunk=1)
        n_calls = 0
        mism = []
        for bad, n in res:
            n_calls += n
            mism += bad
        seen = set()
        for m in mism:
            key = (tuple(map(tuple, m['last'][-2:])),)
            if key in seen or len(seen) > 4:
                continue
            seen.add(key)
            rep = {'describe': f'C19 after {len(m["history"]) - 1} earlier calls in one interpreter, history ending in {m["last"]}: answer {str(m["got"])[:120]} differs from the cold answer {str(m["cold"])[:120]}',
                   'steps': [{'as': 'ok', 'call': 'engine.replayfn.c19_history', 'args': [m['history']]}], 'assert': 'ok == True'}
            common.confirm(ctx, rep)
        abad, nobj, q = algebra(ctx)
        for what, d in abad[:8]:
            rep = {'describe': f'C19 matcher algebra: {what}: {d!r}', 'steps': [{'as': 'b', 'call': 'engine.replayfn.c19_algebra', 'args': []}], 'assert': 'b == []'}
            common.confirm(ctx, rep)
            break
        ctx.coverage.update({
            'evaluations': n_calls + nobj, 'distinct_nontrivial': len(hist),
            'rule': 'histories = all ordered pairs over (tree state, call) plus seeded sequences of length %d, each executed after a 300-pattern prelude and '
                    'compared call by call with the cold answer of a fresh interpreter; regex-valued answers by z3 language equality; plus %d matcher objects '
                    'for the algebra clauses (%d equality pairs decided by z3)' % (L, nobj, q),
            'samples': [hist[0], hist[1], hist[-1]], 'calls_executed': n_calls, 'pool': [c[0] + ':' + c[1] for c in pool], 'cold_answers': len(cold),
            'bounds': {'history_length': L, 'states': list(STATES), 'prelude': 300},
            'functions_encoded': ['_wcparse._compile memo (lru_cache) via its observable contract', '_wcmatch.WcRegexp/WcMatcher __eq__/__hash__/copyreg hooks',
                                  'language equality of regex answers through engine/rxsmt'],
            'exhaustive': not ctx.inconclusive, 'outside_claim': ['the thread clause (no symbolic model of the CPython scheduler)', 'histories longer than the bound'],
        })
        ctx.assumptions += ['a fresh interpreter is the reference for the cold answer', 'z3 QF_BV for language equality']
    finally:
        shutil.rmtree(base, ignore_errors=True)

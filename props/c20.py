"""C20 - RAWCHARS decodes Python-style character escapes and nothing else (E1 + independent decoder).

compile(p, RAWCHARS|f) must have the language of compile(D(p), f) where D is a hand-written scanner (no regex);
compile(p, f) without RAWCHARS must have the language of compile(U(p), f) where U merely drops the backslash in front of
ordinary letters/digits (an escaped x is x).  Languages are compared by z3 over a symbolic name; exception classes
(SyntaxError for incomplete escapes, lookup error for unknown names) are compared concretely with D's prediction.
"""
from __future__ import annotations
import itertools
import random
import unicodedata
import z3

from engine import common, e1
from engine.rxsmt import SymStr, RxEnc, NotEncodable

LEVEL = 'model_checking'

SIMPLE = {'a': '\a', 'b': '\b', 'f': '\f', 'n': '\n', 'r': '\r', 't': '\t', 'v': '\v'}
HEX = '0123456789abcdefABCDEF'


class Predicted(Exception):
    def __init__(self, name):
        self.name = name


def decode(p, is_bytes):
    """Independent RAWCHARS decoder on text (bytes patterns are handled as Latin-1 text)."""
    out = []
    i = 0
    n = len(p)
    while i < n:
        c = p[i]
        if c != '\\' or i + 1 >= n:
            out.append(c)
            i += 1
            continue
        d = p[i + 1]
        if d in SIMPLE:
            out.append(SIMPLE[d])
            i += 2
        elif d == '\\':
            out.append('\\\\')
            i += 2
        elif d == 'x':
            h = p[i + 2:i + 4]
            if len(h) == 2 and all(x in HEX for x in h):
                out.append(chr(int(h, 16)))
                i += 4
            else:
                raise Predicted('SyntaxError')
        elif d in '01234567':
            j = i + 1
            while j < n and j < i + 4 and p[j] in '01234567':
                j += 1
            v = int(p[i + 1:j], 8)
            out.append(chr(v & 0xFF) if is_bytes else chr(v))
            i = j
        elif d == 'u' and not is_bytes:
            h = p[i + 2:i + 6]
            if len(h) == 4 and all(x in HEX for x in h):
                out.append(chr(int(h, 16)))
                i += 6
            else:
                raise Predicted('SyntaxError')
        elif d == 'U' and not is_bytes:
            h = p[i + 2:i + 10]
            if len(h) == 8 and all(x in HEX for x in h):
                v = int(h, 16)
                if v > 0x10FFFF:
                    raise Predicted('SyntaxError')
                out.append(chr(v))
                i += 10
            else:
                raise Predicted('SyntaxError')
        elif d == 'N' and not is_bytes:
            if p[i + 2:i + 3] == '{' and '}' in p[i + 3:]:
                k = p.index('}', i + 3)
                try:
                    out.append(unicodedata.lookup(p[i + 3:k]))
                except KeyError:
                    raise Predicted('KeyError')
                i = k + 1
            else:
                raise Predicted('SyntaxError')
        else:
            out.append('\\' + d)
            i += 2
    return ''.join(out)


def unescape_plain(p):
    """Without RAWCHARS: a backslash before an ordinary letter or digit is just an escaped literal."""
    out = []
    i = 0
    n = len(p)
    while i < n:
        c = p[i]
        if c == '\\' and i + 1 < n:
            d = p[i + 1]
            if d.isalnum() and d.isascii():
                out.append(d)
            else:
                out.append(c + d)
            i += 2
        else:
            out.append(c)
            i += 1
    return ''.join(out)


def conv(t, is_bytes):
    return t.encode('latin-1') if is_bytes else t


def work(item, N):
    kind, mode, p, flags, is_bytes = item
    m = e1.mod_of(mode)
    res = {'item': item, 'status': 'ok', 'sat': 0, 'unsat': 0, 'unknown': 0, 'solver_s': 0.0}
    if kind == 'raw':
        try:
            ref = decode(p, is_bytes)
            pred = None
        except Predicted as ex:
            ref, pred = None, ex.name
        try:
            r1 = e1.real_regexes(mode, conv(p, is_bytes), flags | m.RAWCHARS)
            got = None
        except Exception as ex:  # noqa: BLE001
            r1, got = None, type(ex).__name__
        if pred or got:
            ok = (pred == got) or (pred == 'KeyError' and got in ('KeyError', 'LookupError')) or (pred == 'ValueError' and got in ('ValueError', 'OverflowError'))
            if not ok:
                res['status'] = 'exception_differs'
                res['detail'] = {'predicted': pred, 'got': got}
            else:
                res['exc_case'] = pred
            return res
        try:
            if is_bytes:
                ref.encode('latin-1')
            r2 = e1.real_regexes(mode, conv(ref, is_bytes), flags)
        except Exception as ex:  # noqa: BLE001
            res['status'] = 'reference_raises'
            res['detail'] = repr(ex)
            return res
        res['ref'] = ref
    else:
        ref = unescape_plain(p)
        try:
            r1 = e1.real_regexes(mode, conv(p, is_bytes), flags)
            r2 = e1.real_regexes(mode, conv(ref, is_bytes), flags)
        except Exception as ex:  # noqa: BLE001
            res['status'] = 'raises'
            res['detail'] = repr(ex)
            return res
        res['ref'] = ref
    try:
        s = SymStr('s', N, is_bytes)
        enc = RxEnc(s)
        f1, f2 = enc.matcher(*r1), enc.matcher(*r2)
    except NotEncodable as ex:
        res['status'] = 'not_encodable'
        res['detail'] = str(ex)
        return res
    r, mdl, dt = e1.solve(enc.side_constraints() + [z3.Xor(f1, f2)])
    res[r] += 1
    res['solver_s'] += dt
    if r == 'sat':
        res['status'] = 'differs'
        res['name'] = s.eval(mdl)
    elif r != 'unsat':
        res['status'] = 'unknown'
    else:
        r2_, m2, dt2 = e1.solve(enc.side_constraints() + [f1])
        res['solver_s'] += dt2
        if r2_ == 'sat':
            w = s.eval(m2)
            res['acc'] = w
            if not e1.concrete_match(r1[0], r1[1], w):
                res['status'] = 'encoder_mismatch'
        elif r2_ == 'unsat':
            res['empty'] = True
        else:
            res['status'] = 'unknown'
    return res


TOKENS = ['\\x7b', '\\x7d', '\\x2c', '\\x7c', '\\173', '\\54', '\\N{LEFT CURLY BRACKET}', ',', '\\x41', '\\x2a', '\\x5c', '\\x2f', '\\101', '\\0', '\\52', '\\777', '\\u0041', '\\U00000041', '\\N{DIGIT ONE}', '\\N{ASTERISK}', '\\n', '\\t', '\\a',
          '\\\\', '\\*', '\\x', '\\x4', '\\u12', '\\U0000004', '\\N', '\\N{', '\\N{}', '\\N{NOPE}', 'a', '*', '[', ']', '/', '4', '1', 'x', '?', '\\/', '\\e', '\\8',
          '\\u', '\\U', '{', '}', '\\[', '!(', ')', '|']
CHARS = ['\\', 'x', 'u', 'U', 'N', 'a', 'n', '0', '1', '7', '8', '4', 'f', '{', '}', '/', '*', '[', ']']


def boundary_tokens():
    """Every escape kind at the edges of its value range, and with hex digits in either case."""
    out = ['\\x' + h for h in ('00', '7f', '80', 'ff', '4A', '4a', 'Af', 'FF')]
    out += ['\\' + o for o in ('0', '7', '77', '377', '400', '777', '08')]
    out += ['\\u' + h for h in ('0001', '007f', '0080', '00ff', '0100', 'd7ff', 'e000', 'ffff', '00AF', 'FFFF')]
    out += ['\\U' + h for h in ('00000001', '0000ffff', '00010000', '0001F600', '000fffff', '00100000', '0010ffff', '0010FFFF', '00100041', '00110000', '7fffffff', 'ffffffff')]
    out += ['\\N{latin small letter a}', '\\N{Latin Small Letter A}', '\\N{NULL}', '\\N{LATIN CAPITAL LETTER A WITH GRAVE}', '\\N{GRINNING FACE}']
    return out


def patterns(ctx, rnd):
    out = []
    for t in TOKENS:
        out.append(t)
    for t in boundary_tokens():
        out.append(t)
        out.append(t + '*')
        out.append('[' + t + ']')
    for a, b in itertools.product(TOKENS, repeat=2):
        out.append(a + b)
    for k in (1, 2, 3):
        for t in itertools.product(CHARS, repeat=k):
            out.append(''.join(t))
    n3 = 1500 if ctx.quick else 20000
    for _ in range(n3):
        out.append(''.join(rnd.choice(TOKENS) for _ in range(rnd.randint(3, 5))))
    n4 = 1500 if ctx.quick else 20000
    for _ in range(n4):
        out.append(''.join(rnd.choice(CHARS) for _ in range(rnd.randint(4, 8 if ctx.quick else 10))))
    seen = set()
    res = []
    for p in out:
        if p and p not in seen:
            seen.add(p)
            res.append(p)
    if ctx.quick:
        head = res[:len(TOKENS) * (len(TOKENS) + 1) + 3 * len(boundary_tokens())]
        tail = res[len(head):]
        rnd.shuffle(tail)
        res = head + tail[:4500]
    return res


def build_items(ctx, rnd):
    from wcmatch import fnmatch as F, glob as G
    items = []
    for k, p in enumerate(patterns(ctx, rnd)):
        fl_fn = [0, F.EXTMATCH, F.FORCEWIN, F.EXTMATCH | F.IGNORECASE][k % 4]
        items.append(('raw', 'fn', p, fl_fn, False))
        items.append(('plain', 'fn', p, [0, F.FORCEWIN, F.EXTMATCH][k % 3], False))
        if k % 2 == 0:
            items.append(('raw', 'fn', p, 0, True))
            items.append(('plain', 'fn', p, F.FORCEWIN if k % 4 == 0 else 0, True))
        if any(x in p for x in ('7b', '7d', '2c', '7c', '173', '175', '54', '174', '{', '|', 'N{')) or k % 7 == 0:
            items.append(('raw', 'fn', p, F.BRACE, False))
            items.append(('raw', 'fn', p, F.SPLIT | F.EXTMATCH, False))
            items.append(('raw', 'gl', p, G.BRACE | G.SPLIT, False))
            items.append(('raw', 'fn', p, F.BRACE | F.SPLIT, True))
        if k % 3 == 0:
            items.append(('raw', 'gl', p, [G.GLOBSTAR, G.FORCEWIN, G.EXTGLOB | G.DOTGLOB][k % 9 // 3], False))
            items.append(('plain', 'gl', p, G.FORCEWIN if k % 2 else 0, k % 6 == 0))
    return items


def run(ctx):
    rnd = random.Random(ctx.seed * 7919 + 20)
    N = 5 if ctx.quick else 6
    live = common.check_known_witnesses(ctx)
    region_hits = 0
    items = build_items(ctx, rnd)
    results = common.pmap(work, items, ctx.workers, extra=(N,))
    q = {'sat': 0, 'unsat': 0, 'unknown': 0}
    solver_s = 0.0
    distinct = set()
    samples = []
    exc_cases = {}
    for res in results:
        for k in q:
            q[k] += res[k]
        solver_s += res['solver_s']
        kind, mode, p, flags, is_bytes = res['item']
        st = res['status']
        if st == 'ok':
            if res.get('exc_case'):
                exc_cases[res['exc_case']] = exc_cases.get(res['exc_case'], 0) + 1
                distinct.add(repr(res['item']))
            elif res.get('ref') is not None and res['ref'] != p and not res.get('empty'):
                distinct.add(repr(res['item']))
                if len(samples) < 8 and res.get('acc') and '\\' in p and kind not in [x['kind'] + str(x['bytes']) for x in samples]:
                    samples.append({'kind': kind, 'mode': mode, 'pattern': p, 'bytes': is_bytes, 'flags': e1.flagnames(mode, flags), 'reference_pattern': res['ref'],
                                    'verdict': 'unsat: equal languages', 'accepted': res['acc']})
            continue
        if st in ('unknown', 'not_encodable', 'encoder_mismatch', 'reference_raises'):
            ctx.inconclusive.append({'why': st, 'item': res['item'], 'detail': res.get('detail')})
            continue
        if (st == 'differs' and mode == 'fn' and flags & e1.mod_of(mode).FORCEWIN and res.get('ref') is not None
                and ('\\/' in res['ref'] or '\\/' in p) and 'decoded-backslash-before-slash-forcewin' in live):
            # fnmatch mode + FORCEWIN: the scanner rewrites a recognised escaped slash to two escaped backslashes (= two separators,
            # pinned by tests/test_fnmatch.py case121), so whether a backslash-slash pair is *seen* by the scanner (it is not when it
            # results from decoding, or sits inside something shaped like a named escape) changes the language
            region_hits += 1
            continue
        rep = {'describe': f'C20 {kind} {st}: pattern {p!r} bytes={is_bytes} [{e1.flagnames(mode, flags)}] detail={res.get("detail")} name={res.get("name")!r}',
               'steps': [{'as': 'ok', 'call': 'engine.replayfn.rawchars_agree', 'args': [kind, mode, p, flags, is_bytes, res.get('name')]}],
               'assert': 'ok == True'}
        common.confirm(ctx, rep)
    walk = walk_side(ctx)
    ctx.coverage.update({
        'walk_side': {k: walk[k] for k in ('evaluations', 'distinct_nontrivial', 'combos', 'solver_calls', 'traces_validated_against_impl', 'samples')},
        'evaluations': q['sat'] + q['unsat'] + q['unknown'] + sum(exc_cases.values()) + walk['evaluations'], 'distinct_nontrivial': len(distinct) + walk['distinct_nontrivial'],
        'rule': 'one obligation per (kind, mode, pattern, flags, str/bytes); non-trivial = the reference pattern differs from the input (something had '
                'to be decoded / unescaped) and the language is non-empty, or an exception class was predicted and observed',
        'samples': samples, 'exception_cases': exc_cases, 'obligations': len(results), 'queries': q, 'solver_time_s': round(solver_s, 2),
        'bounds': {'name_length_max': N, 'patterns': 'all 1-2 token strings over %d tokens, all <=3 char strings over %d chars, seeded longer' % (len(TOKENS), len(CHARS))},
        'functions_encoded': ['util.norm_pattern (run concretely inside compile); resulting regexes encoded; independent decoder props/c20.decode'],
        'known_region_hits': region_hits, 'exhaustive': not ctx.inconclusive, 'outside_claim': ['p is enumerated, not symbolic', 'WcMatch entry point (same WcRegexp objects)'],
    })
    ctx.assumptions += ['z3 QF_BV', 're._parser AST == what _sre executes', 'the hand-written decoder is the reference reading of the statement']


def walk_side(ctx):
    """E3: glob() with RAWCHARS on symbolic trees - inclusion and exclude= patterns decode like the decoded patterns behave."""
    from engine import fsdriver
    from wcmatch import glob as G
    S = G.GLOBSTAR
    combos = []
    ts = ['flat', 'nest', 'meta', 'hid'] if ctx.quick else ['flat', 'nest', 'meta', 'hid', 'hid2', 'same', 'case', 'link1']
    cases = [('\\x61*', None, 0), ('*', '\\x61*', 0), ('*', '\\141', 0), ('**', '\\x61/*', S), ('\\x2a', None, 0), ('*', '\\x2a/x', S), ('*', '\\x6', 0), ('\\x6', None, 0),
             ('*', '\\N{LATIN SMALL LETTER A}*', 0), ('[\\x61-\\x62]', '\\x62', 0), ('\\x61/\\x78', None, 0), ('*/*', '\\x61/\\x2a', 0), ('*', '\\u0061', 0),
             ('\\x61|\\x62', '\\x62', G.SPLIT), ('{\\x61,b}', None, G.BRACE), ('*', '{\\x61,f}', G.BRACE), ('a\\x5cb', None, 0), ('*', '\\x5bx\\x5d', 0)]
    for pat, ex, f in cases:
        for t in ts:
            combos.append(('c20fs', t, (pat, ex, f)))
    saved = ctx.coverage
    ctx.coverage = {}
    fsdriver.run_property(ctx, combos, None, 3000 if ctx.quick else 60000, lambda p: f'pattern={p[0]!r} exclude={p[1]!r} flags={p[2]:#x}', known_from=('C20',))
    walk = ctx.coverage
    ctx.coverage = saved
    return walk

"""Entry point: ./check <ID> [--tier quick|thorough] [--replay FILE]"""
from __future__ import annotations
import argparse
import importlib
import os
import sys
import traceback

from engine import common


def main():
    ap = argparse.ArgumentParser()
    ap.add_argument('prop')
    ap.add_argument('--tier', default=os.environ.get('VERIF_TIER', 'quick'), choices=['quick', 'thorough'])
    ap.add_argument('--replay')
    ap.add_argument('--workers', type=int, default=0)
    a = ap.parse_args()
    if a.replay:
        code, out = common.run_replay_file(a.replay)
        print(out)
        if code == 1:
            print(f'VIOLATION property={a.prop} replay={a.replay}')
        sys.exit(code)
    seed = int(os.environ.get('VERIF_SEED', '0') or 0)
    ctx = common.Ctx(a.prop, a.tier, seed, a.workers or None)
    try:
        common.assert_repo_tree()
        mod = importlib.import_module('props.' + a.prop.lower())
        mod.run(ctx)
        code = common.finish(ctx, getattr(mod, 'LEVEL', 'model_checking'))
    except common.HarnessError as e:
        print(f'HARNESS-ERROR property={a.prop}: {e}')
        code = common.EXIT_HARNESS
    except Exception:  # noqa: BLE001
        traceback.print_exc()
        print(f'HARNESS-ERROR property={a.prop}: unexpected exception in the machinery')
        code = common.EXIT_HARNESS
    sys.exit(code)


if __name__ == '__main__':
    main()

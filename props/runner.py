"""Entry point: ./check <ID> [--tier quick|thorough] [--replay FILE]"""
from __future__ import annotations
import argparse
import importlib
import os
import sys
import traceback

from engine import common


E1_PROPS = {'C01', 'C02', 'C03', 'C07', 'C08', 'C09', 'C17', 'C18', 'C20'}


def main():
    ap = argparse.ArgumentParser()
    ap.add_argument('prop')
    ap.add_argument('--tier', default=os.environ.get('VERIF_TIER', 'quick'), choices=['quick', 'thorough'])
    ap.add_argument('--replay')
    ap.add_argument('--workers', type=int, default=0)
    a = ap.parse_args()
    if a.replay:
        code, out = common.run_replay_file(a.replay)
        print(out)
        if code == 1:
            print(f'VIOLATION property={a.prop} replay={a.replay}')
        sys.exit(code)
    seed = int(os.environ.get('VERIF_SEED', '0') or 0)
    ctx = common.Ctx(a.prop, a.tier, seed, a.workers or None)
    try:
        common.assert_repo_tree()
        mod = importlib.import_module('props.' + a.prop.lower())
        mod.run(ctx)
        # every entry point that consults the compiled regexes (direct call, compiled matcher, filter) is observed with spy objects;
        # if one of them reads the regexes with another method than the others, the property is decided again for that reading
        try:
            from engine import rxsmt
            variants = rxsmt.method_variants()
        except Exception:  # noqa: BLE001
            variants = [None]
        if len(variants) > 1 and a.prop in E1_PROPS:
            first = dict(ctx.coverage)
            for k in range(1, len(variants)):
                rxsmt.VARIANT = k
                ctx.coverage = {}
                mod.run(ctx)
            rxsmt.VARIANT = 0
            first['regex_method_variants'] = [list(v) for v in variants]
            ctx.coverage = first
        code = common.finish(ctx, getattr(mod, 'LEVEL', 'model_checking'))
    except common.HarnessError as e:
        print(f'HARNESS-ERROR property={a.prop}: {e}')
        code = common.EXIT_HARNESS
    except Exception:  # noqa: BLE001
        traceback.print_exc()
        print(f'HARNESS-ERROR property={a.prop}: unexpected exception in the machinery')
        code = common.EXIT_HARNESS
    sys.exit(code)


if __name__ == '__main__':
    main()

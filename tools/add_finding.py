"""Developer tool (never run by a check): append a finding line with a JSON witness to KNOWN_FINDINGS.txt."""
import json, sys
sys.path.insert(0, '/verif')
from engine.common import enc
def line(prop, key, witness, desc):
    return f'finding: property={prop} key={key} witness={json.dumps(enc(witness), sort_keys=True)} :: {desc}'
if __name__ == '__main__':
    prop, key, desc = sys.argv[1], sys.argv[2], sys.argv[3]
    witness = json.load(sys.stdin)
    with open('/verif/KNOWN_FINDINGS.txt', 'a') as f:
        f.write(line(prop, key, witness, desc) + '\n')

#!/bin/sh
# Runs the repository's own test suite with the verification guard OFF (no hooks exist; WCMATCH_VERIF is unset).
unset WCMATCH_VERIF
cd /repo && exec /venv/bin/python -m pytest -ra -q -p no:cacheprovider --timeout=900 --continue-on-collection-errors "$@"

#!/bin/sh
# Idempotent offline bootstrap of /verif/.venv (overlay on /venv + crosshair-tool + z3-solver from the wheelhouse).
set -e
V=/verif/.venv
if [ ! -x "$V/bin/python" ] || ! "$V/bin/python" -c "import z3, crosshair, bracex" >/dev/null 2>&1; then
  exec 9>/tmp/.verif_bootstrap.lock
  flock 9
  if [ ! -x "$V/bin/python" ] || ! "$V/bin/python" -c "import z3, crosshair, bracex" >/dev/null 2>&1; then
    rm -rf "$V"
    /venv/bin/python -m venv "$V"
    SP=$("$V/bin/python" -c "import sysconfig; print(sysconfig.get_paths()['purelib'])")
    printf "import site; site.addsitedir('/venv/lib/python3.12/site-packages')\n" > "$SP/_verif_overlay.pth"
    PIP_NO_INDEX=1 "$V/bin/pip" install -q --no-index --find-links /opt/veriftools/wheels crosshair-tool z3-solver >/dev/null
  fi
fi

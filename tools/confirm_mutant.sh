#!/bin/sh
# Developer tool: confirm a candidate seeded change in a scratch worktree of /repo HEAD (never touches /repo's tree).
# usage: confirm_mutant.sh <dir with patch.diff demo.py>
set -u
D=$(realpath "$1"); W=/tmp/wt/confirm_$$
git -C /repo worktree add -q --detach "$W" HEAD || exit 9
cd "$W"
cp "$D/demo.py" demo.py
/venv/bin/python demo.py >/dev/null 2>&1; base=$?
if ! git apply "$D/patch.diff"; then echo "PATCH-DOES-NOT-APPLY"; cd /; git -C /repo worktree remove --force "$W"; exit 8; fi
/venv/bin/python demo.py >/dev/null 2>&1; mut=$?
sum=$(/venv/bin/python -m pytest -q -p no:cacheprovider 2>&1 | tail -1)
cd /; git -C /repo worktree remove --force "$W"
echo "demo_unchanged_exit=$base demo_mutated_exit=$mut tests: $sum"
case "$sum" in *"2 failed, 1194 passed"*) t=ok;; *) t=bad;; esac
[ "$base" = 0 ] && [ "$mut" != 0 ] && [ $t = ok ] && echo CONFIRMED && exit 0
echo NOT-CONFIRMED; exit 1

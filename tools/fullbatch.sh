#!/bin/sh
# Developer tool: clean sweep (seed 1) of all checks, then round-2 candidates, then the kept seeded changes.
cd /verif
( for p in C01 C02 C03 C04 C05 C06 C07 C08 C09 C10 C11 C12 C13 C14 C15 C16 C17 C18 C19 C20; do
    out=$(VERIF_SEED=1 timeout 3000 ./check $p 2>&1); rc=$?
    echo "clean seed=1 $p exit=$rc $(echo "$out" | grep -E '^(OK|INCONCLUSIVE|HARNESS)' | cut -c1-150)"
    echo "$out" | grep -A1 '^VIOLATION' | cut -c1-400 | head -6
  done ) > /tmp/clean_sweep.txt 2>&1
git -C /verif checkout -- evidence 2>/dev/null
tools/round2.sh
tools/run_seeded.sh > /tmp/seeded_round1.txt 2>&1
echo ALLDONE >> /tmp/seeded_round1.txt

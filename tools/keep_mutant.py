"""Developer tool: store a confirmed seeded change under /verif/seeded/<id>/ with meta.json."""
import json, os, shutil, sys
src, sid, prop, needs, detected = sys.argv[1:6]
dst = f'/verif/seeded/{sid}'
os.makedirs(dst, exist_ok=True)
for f in ('patch.diff', 'demo.py', 'notes.txt'):
    if os.path.exists(os.path.join(src, f)):
        shutil.copy(os.path.join(src, f), dst)
meta = {'id': sid, 'breaks_property': prop, 'needs_to_manifest': needs,
        'confirmed_by': 'tools/confirm_mutant.sh: scratch worktree of /repo HEAD; demo exits 0 unchanged / non-zero with the patch; pytest summary identical to baseline (2 failed, 1194 passed, 151 skipped)',
        'ran': f'tools/try_mutant.sh seeded/{sid}/patch.diff {prop} (git -C /repo apply; ./check {prop} --tier quick; git -C /repo checkout -- .)',
        'detected_by': detected, 'origin': 'independent sub-agent given only the property text and a scratch worktree'}
json.dump(meta, open(os.path.join(dst, 'meta.json'), 'w'), indent=1)
print('kept', dst)

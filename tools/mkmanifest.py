"""Developer tool: regenerate MANIFEST.json from the table below (keeps it valid at all times)."""
import json, os
CLAIMED = {}
def claim(i, engine, technique, text, note, ref):
    CLAIMED[i] = dict(engine=engine, technique=technique, text=text, note=note, ref=ref)
E1NOTE = 'Trusted: z3 (QF_BV); the positional regex encoder engine/rxsmt.py (every obligation replays an accepted and a rejected solver witness through re.fullmatch; any mismatch is exit 3); re._parser being the front end of the C engine. Patterns/flags are enumerated from generator pools (not symbolic); names are symbolic up to the stated length; a sat model is replayed through the public API in a clean interpreter before VIOLATION is printed; unknown/timeouts are exit 3.'
claim('C01', 'E1 rxsmt + spec', 'bounded SMT (z3 QF_BV): independent spec AST vs the regex the real fnmatch compile produces, symbolic name',
  'Per generated pattern AST and flag set the real fnmatch.compile is run, its executed regexes are encoded, the documented language of the AST (engine/spec.py) is encoded over the same symbolic name, and z3 decides must=>impl and impl=>may for ALL names up to length 6 (quick) / 8 (thorough) not beginning with a dot unless DOTMATCH. Known-finding regions are subtracted inside the query.', E1NOTE + ' Spec AST semantics reviewed against the property text.', 'DESIGN.md 3, 6 C01')
claim('C02', 'E1 rxsmt + spec', 'bounded SMT (z3 QF_BV): path spec (segments, separators, globstar, MATCHBASE, NODIR) vs real glob regexes, symbolic path',
  'Same as C01 in path mode: the real glob.compile regexes vs the segment-wise path specification, for all paths up to length 7 (quick) / 9 (thorough) whose segments are not hidden (unless DOTGLOB) and not . or ..', E1NOTE, 'DESIGN.md 3, 6 C02')
claim('C03', 'E1 rxsmt + spec', 'bounded SMT (z3 QF_BV): dot rule of the spec vs real fnmatch/glob regexes on the hidden-name domain, symbolic name/path',
  'Match side of C03: the same spec-vs-implementation obligations on the complementary domain (some segment begins with a dot, or is . / .. under DOTGLOB), fnmatch and glob mode, DOTGLOB/NODOTDIR/GLOBSTAR/MATCHBASE/EXTGLOB. The walk side (glob()/WcMatch results on trees) is covered by the symfs checks when present.', E1NOTE + ' Deviations listed under C01/C02 are excluded from the domain as stated exclusions.', 'DESIGN.md 6 C03')
claim('C07', 'E1 rxsmt', 'bounded SMT (z3 QF_BV): language of the combined list/SPLIT/BRACE matcher == boolean combination of single-pattern real regexes',
  'For each generated list / exclusion / inline-negation / SPLIT / BRACE form the regexes of the real combined matcher are compared, for all names up to N, with OR(single inclusions) AND NOT OR(single exclusions compiled with DOTMATCH); translate() list lengths compared concretely.', E1NOTE + ' Brace expansion itself is bracex (trusted).', 'DESIGN.md 6 C07')
claim('C08', 'E1 rxsmt', 'bounded SMT (z3 QF_BV): language equivalence of the real translate() regexes vs the regexes the real matcher executes, symbolic name',
  'For every enumerated (pattern list, exclusions, flags) the real translate() and compile() are executed on the current tree; z3 decides equality of the two languages for ALL names up to the stated length; every translate regex must compile; capture-group count compared with the generator AST.', E1NOTE, 'DESIGN.md 3, 6 C08')
claim('C09', 'E1 rxsmt', 'bounded SMT (z3 QF_BV): language of compile(escape(s)) / of a non-magic p is exactly the literal equivalence class, symbolic name',
  'For every enumerated string s (all strings up to length 2/3 over a 24-symbol alphabet + seeded longer, drive/UNC shapes) and a covering sample of flag subsets, z3 decides that the regexes of the real compile(escape(s), flags) accept exactly s modulo the mode equivalences; converse for is_magic False.', E1NOTE + ' s is enumerated, not symbolic.', 'DESIGN.md 6 C09')
claim('C17', 'E1 rxsmt', 'bounded SMT (z3 QF_BV): relational queries over two tied symbolic names (ASCII case swap, separator swap, backslash->slash) on real regexes',
  'Closure and equivalence claims of the case/platform flags decided for all name pairs up to N: case-insensitive modes closed under ASCII case changes of name and literal pattern text, CASE wins, FORCEWIN|FORCEUNIX cancel, FORCEWIN separator interchange, Windows == Unix+IGNORECASE on the normalised name, drive/UNC prefixes literal and case-insensitive.', E1NOTE + ' ASCII case only.', 'DESIGN.md 6 C17')
claim('C18', 'E1 rxsmt', 'bounded SMT (z3 QF_BV): bytes-call regexes vs str-call regexes on Latin-1-tied symbolic names; concrete equality of translate/escape/is_magic',
  'Regex level of C18: for each (patterns, flags, exclude) the verdict of the bytes matcher on b equals the verdict of the str matcher on the Latin-1 decoding of b for all b up to N (0..0xFF; 0..0x7F in case-insensitive modes); TypeError clause concretely. glob()/WcMatch str-vs-bytes results are in the symfs checks when present.', E1NOTE, 'DESIGN.md 6 C18')
claim('C20', 'E1 rxsmt', 'bounded SMT (z3 QF_BV): language of compile(p, RAWCHARS) == language of compile(D(p)) with an independent decoder D; exception classes compared concretely',
  'For every enumerated escape-token string p (str and bytes, fnmatch and glob, with/without FORCEWIN): RAWCHARS compile vs compile of the independently decoded pattern, and non-RAWCHARS compile vs the plainly unescaped pattern, as language equalities over a symbolic name; SyntaxError/lookup errors vs the decoder prediction.', E1NOTE + ' The hand-written decoder is the reference reading.', 'DESIGN.md 6 C20')
E2NOTE = 'Trusted: CrossHair (crosshair-tool 0.0.110) path exploration and z3; only int/bool parameters are symbolic, strings are concrete; a reachability twin (postcondition that must be refuted) guards against vacuity; a counterexample is re-evaluated in a plain interpreter and replayed through the public API before VIOLATION; Not confirmed / Unable to meet precondition / NotDeterministic are exit 3.'
claim('C11', 'E2 CrossHair', 'symbolic execution (CrossHair + z3) of the real expansion loops over symbolic limit and expansion counts; concrete boundary layer',
  'harness/xh_c11.py runs the real compile_pattern / translate / compile / Glob.__init__ with bracex replaced by a contract-obeying stub driven by symbolic counts; 14 conditions (entry point x duplicates x inline-vs-exclude=, plus call history) must be Confirmed over all paths: raise iff over the limit (three zones), work bounded, budget handed to bracex in [1, L]. Defaults and the constants 32/33/1000/1001 and {1..100000000} are run concretely through every public entry point.', E2NOTE + ' Stubs: _wcparse.expand, _compile, WcParse, glob._GlobSplit.', 'DESIGN.md 5, 6 C11')
claim('C15', 'E2 CrossHair', 'symbolic execution (CrossHair + z3) of the real WcMatch walker over symbolic kill / poll-flip / raising hook indices',
  'harness/xh_c15.py: a recording WcMatch subclass on a real scratch tree; symbolic k (kill from the k-th hook invocation), j (abort flag flips before the j-th is_aborted poll: model of another thread), e (e-th hook raises); prefix-exactness, nothing beyond the file in progress, aborted until reset, complete re-run, on_reset once per run, skipped counter, exactly-one routing, values passed through.', E2NOTE + ' Real preemptive thread schedules are outside the claim (poll-point reduction).', 'DESIGN.md 6 C15')
E3NOTE = 'Trusted: z3 (feasibility of each decision); the executor and stub os layer engine/symfs.py (validated every run by re-running sampled explored trees on materialised real directories and comparing observations); for reference-walk oracles engine/refwalk.py + engine/spec.py. Every failing path is materialised as a real tree and re-checked by the same check function against the real os before VIOLATION. Bounds: templates of <= 6 slots / <= 4 link targets with concrete names; path cap per (template, parameters) stated in evidence.'
claim('C04', 'E3 symfs', 'dynamic symbolic execution of the real glob walker and REALPATH matcher over a symbolic directory tree (z3 decides entry kinds / link targets)',
  'For each (template, pattern, flags, root mode) every feasible tree is explored; on each, the set glob() returns must equal the set of candidate paths (all slots, with and without trailing separator, spelled through potential links, plus glob results, an absolute and a missing path) accepted by globmatch with REALPATH. Both sides are the real code on the same decided tree.', E3NOTE, 'DESIGN.md 4, 6 C04')
claim('C05', 'E3 symfs', 'dynamic symbolic execution of the real glob walker over a symbolic tree vs an independent reference walk on the same path condition',
  'glob() results vs the MUST/MAY sets of a segment-by-segment reference interpretation of the generator AST (literal segments followed as written, wildcards against listings with the C02/C03 meaning, globstar traversal rules, . and .. only where written unless SCANDOTDIR). The Bash 5.2 clause is not decided (external process).', E3NOTE, 'DESIGN.md 4, 6 C05')
claim('C06', 'E3 symfs', 'dynamic symbolic execution with listing monitors: every os.scandir of the real walkers recorded on symbolic trees with links and cycles',
  'No directory is listed through a symlink at a position the pattern does not go through (reference walk supplies the allowed set); exceeding the listing budget without FOLLOW / *** / SYMLINKS is a non-termination witness; REALPATH globmatch vs glob on patterns mixing ** and ***; WcMatch without SYMLINKS never descends a link.', E3NOTE + ' With FOLLOW on cyclic trees no termination claim (kernel ELOOP bounds the walk).', 'DESIGN.md 4, 6 C06')
claim('C12', 'E3 symfs', 'dynamic symbolic execution of the real glob walker over a symbolic tree: per-result well-formedness and equality across root modes',
  'Every result of glob() on every feasible tree: exists (lexists), relative/absolute like its pattern, trailing separator iff directory-style, MARK / trailing-separator patterns, NODIR; iglob == glob; identical lists for root_dir as str / bytes / PathLike, dir_fd and chdir (with an unrelated working directory).', E3NOTE, 'DESIGN.md 6 C12')
claim('C13', 'E3 symfs', 'dynamic symbolic execution: glob(list) vs the union of the real single-pattern globs minus exclusions on the same symbolic tree',
  'For generated lists (overlapping, identical, case-differing, via BRACE/SPLIT; exclusions inline or exclude=) and NOUNIQUE / IGNORECASE / NODIR / SCANDOTDIR / NEGATEALL: set equality with the union of single-pattern results minus globmatch-excluded paths (directory results tested with a trailing separator, DOTGLOB forced), no duplicates, NOUNIQUE = concatenation in order.', E3NOTE, 'DESIGN.md 6 C13')
claim('C14', 'E3 symfs', 'dynamic symbolic execution of the real WcMatch walker over a symbolic tree vs an independent filtered reference walk',
  'WcMatch.match() and get_skipped() on every feasible tree vs a scandir-based reference walk (RECURSIVE, HIDDEN, SYMLINKS, FILEPATHNAME/DIRPATHNAME, MATCHBASE, GLOBSTAR, EXTMATCH, MINUSNEGATE, case flags) whose name predicate decomposes the |-split / negated pattern into single-pattern real matches (C07 meaning).', E3NOTE + ' The single-pattern name oracle shares the parser with the implementation (its meaning is C01/C02).', 'DESIGN.md 6 C14')
claim('C16', 'E3 symfs', 'dynamic symbolic execution: wcmatch.pathlib methods vs wcmatch.glob on the same symbolic tree',
  'Path.glob == glob.glob joined onto the path, rglob == the pattern with an implicit leading recursive segment, globmatch/full_match == glob.globmatch on the path string (+ separator for directories), match(p, REALPATH) <=> Path(".").rglob(p) yields it, ValueError for absolute patterns, user FORCEWIN ignored, no duplicates unless NOUNIQUE.', E3NOTE + ' The match/rglob equivalence excludes SCANDOTDIR and patterns with . / .. segments (pathlib normalises them away).', 'DESIGN.md 6 C16')
NA_REASON = 'check not built yet in this round of work (planned engine per DESIGN.md section 6); not claimed until its check exists'
ids = [json.loads(l)['id'] for l in open('/verif/properties.jsonl')]
man = {
 'version': 1,
 'setup_cmd': './tools/bootstrap.sh',
 'hooks': {'guard': 'WCMATCH_VERIF', 'enable': 'no source hooks: checks run the unmodified /repo tree (PYTHONPATH=/repo) and patch os/_wcparse functions from the harness side only',
           'baseline_off_cmd': './tools/baseline_off.sh', 'source_commits': [], 'add_only': True},
 'engines': [
  {'name': 'E1 rxsmt', 'path': 'engine/rxsmt.py', 'serves_properties': sorted(k for k, v in CLAIMED.items() if 'E1' in v['engine']), 'kind_free_text': 'real regex (re._parser AST) -> bounded QF_BV formula over a symbolic name; z3'},
 ],
 'checks': [],
 'not_applicable': [],
 'notes': 'Solver-based checking of the real code; see DESIGN.md. Exit 3 = inconclusive/harness error (never a pass).',
}
for i in ids:
    if i in CLAIMED:
        c = CLAIMED[i]
        man['checks'].append({
            'property_id': i, 'quick_cmd': f'./check {i} --tier quick', 'thorough_cmd': f'./check {i} --tier thorough',
            'evidence_file': f'evidence/{i}.json', 'replay_cmd_template': f'./check {i} --replay {{path}}', 'engine': c['engine'],
            'level_claimed': {'category': c.get('level', 'model_checking'), 'text': c['text'], 'design_ref': c['ref']},
            'level_note': c['note'], 'technique': c['technique']})
    else:
        man['not_applicable'].append({'property_id': i, 'reason': NA.get(i, NA_REASON) if (NA := globals().get('NA', {})) is not None else NA_REASON})
json.dump(man, open('/verif/MANIFEST.json', 'w'), indent=1)
print('claimed', len(man['checks']), 'n/a', len(man['not_applicable']))

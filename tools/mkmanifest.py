"""Developer tool: regenerate MANIFEST.json from the table below (keeps it valid at all times)."""
import json, os
CLAIMED = {
 'C08': dict(engine='E1 rxsmt', technique='bounded SMT (z3 QF_BV) language equivalence of the real translate() regexes vs the regexes the real matcher executes, symbolic name',
   text='For every enumerated (pattern list, exclusions, flags) the real translate() and compile() are executed on the current tree, their regexes parsed with re._parser and encoded positionally; z3 decides equality of the two languages for ALL names up to the stated length (unsat = equal), a sat model is replayed through the public API before it is reported. Capture-group count compared with the generator AST.',
   note='Trusted: z3; the positional encoder (validated per obligation with an accepted and a rejected witness through re.fullmatch); re._parser being the front end of the engine. Bounds: name length <= 6 (quick) / 8 (thorough); patterns enumerated from the generator pools, not symbolic.',
   ref='DESIGN.md section 3, section 6 C08'),
}
NA_REASON = 'check not built yet in this round of work (planned engine per DESIGN.md section 6); not claimed until its check exists'
ids = [json.loads(l)['id'] for l in open('/verif/properties.jsonl')]
man = {
 'version': 1,
 'setup_cmd': './tools/bootstrap.sh',
 'hooks': {'guard': 'WCMATCH_VERIF', 'enable': 'no source hooks: checks run the unmodified /repo tree (PYTHONPATH=/repo) and patch os/_wcparse functions from the harness side only',
           'baseline_off_cmd': './tools/baseline_off.sh', 'source_commits': [], 'add_only': True},
 'engines': [
  {'name': 'E1 rxsmt', 'path': 'engine/rxsmt.py', 'serves_properties': sorted(k for k, v in CLAIMED.items() if 'E1' in v['engine']), 'kind_free_text': 'real regex (re._parser AST) -> bounded QF_BV formula over a symbolic name; z3'},
 ],
 'checks': [],
 'not_applicable': [],
 'notes': 'Solver-based checking of the real code; see DESIGN.md. Exit 3 = inconclusive/harness error (never a pass).',
}
for i in ids:
    if i in CLAIMED:
        c = CLAIMED[i]
        man['checks'].append({
            'property_id': i, 'quick_cmd': f'./check {i} --tier quick', 'thorough_cmd': f'./check {i} --tier thorough',
            'evidence_file': f'evidence/{i}.json', 'replay_cmd_template': f'./check {i} --replay {{path}}', 'engine': c['engine'],
            'level_claimed': {'category': c.get('level', 'model_checking'), 'text': c['text'], 'design_ref': c['ref']},
            'level_note': c['note'], 'technique': c['technique']})
    else:
        man['not_applicable'].append({'property_id': i, 'reason': NA.get(i, NA_REASON) if (NA := globals().get('NA', {})) is not None else NA_REASON})
json.dump(man, open('/verif/MANIFEST.json', 'w'), indent=1)
print('claimed', len(man['checks']), 'n/a', len(man['not_applicable']))

#!/bin/sh
# Developer tool: blind evaluation of the round-2 seeded candidates (confirm in a scratch worktree, then run the property's check).
out=/tmp/r2_results.txt; : > $out
for i in 01 02 03 04 05 06 07 08 09 10 11 12 13 14 15 16 17 18 19 20; do for m in mut1 mut2; do
  d=/tmp/wt2/out/C$i/$m; [ -f $d/patch.diff ] || { echo "C$i $m MISSING" >> $out; continue; }
  c=$(timeout 900 /verif/tools/confirm_mutant.sh $d 2>&1 | tail -1)
  r=$(timeout 3000 /verif/tools/try_mutant.sh $d/patch.diff C$i 2>&1 | head -1)
  cp /tmp/try_C$i.log /tmp/r2_C${i}_$m.log 2>/dev/null
  echo "C$i $m confirm=$c check=$r" >> $out
  git -C /repo checkout -- . 2>/dev/null
done; done
echo DONE >> $out

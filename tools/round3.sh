#!/bin/sh
# Developer tool: blind evaluation of round-3 candidates on a scratch checkout (WCVERIF_DEV_REPO), leaving /repo alone.
# usage: round3.sh "C02 C04 ..."   (appends to /tmp/r3_results.txt; logs /tmp/r3_<ID>_<m>.log)
# /tmp/scratch/prefix.diff, when present, is applied first (a pending fix: commit the checks are run on top of).
out=${R3OUT:-/tmp/r3_results.txt}
R=/tmp/devrepo2
for p in $1; do for m in mut1 mut2; do
  d=/tmp/wt3/out/$p/$m; [ -f $d/patch.diff ] || { echo "$p $m MISSING" >> $out; continue; }
  c=$(timeout 900 /verif/tools/confirm_mutant.sh $d 2>&1 | tail -1)
  git -C $R checkout -q -- .
  [ -f /tmp/scratch/prefix.diff ] && git -C $R apply /tmp/scratch/prefix.diff
  if git -C $R apply $d/patch.diff 2>/dev/null; then
    cd /verif; WCVERIF_DEV_REPO=$R timeout 3000 ./check $p --tier quick > /tmp/r3_${p}_$m.log 2>&1; r="exit=$?"
  else r="patch-does-not-apply-on-prefix"; fi
  git -C $R checkout -q -- .
  echo "$p $m confirm=$c check=$r" >> $out
done; done
echo "DONE $1" >> $out

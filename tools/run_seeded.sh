#!/bin/sh
# Developer tool: run every kept seeded change against the check of the property it breaks. usage: run_seeded.sh [prefix] [tier]
cd /verif
for d in seeded/${1:-}*/; do
  id=$(basename $d); prop=$(python3 -c "import json;print(json.load(open('$d/meta.json'))['breaks_property'])")
  r=$(tools/try_mutant.sh $d/patch.diff $prop ${2:-quick} | head -1)
  echo "$id $prop $r"
done

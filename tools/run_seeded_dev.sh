#!/bin/sh
# Developer tool: run kept seeded changes against the check of the property they break, on a scratch checkout (leaves /repo alone).
# usage: run_seeded_dev.sh <scratch checkout> <out file> [id-prefix-regex]
R=$1; out=$2; sel=${3:-.}
cd /verif
for d in seeded/*/; do
  id=$(basename $d); echo $id | grep -Eq "$sel" || continue
  prop=$(python3 -c "import json;print(json.load(open('$d/meta.json'))['breaks_property'])")
  git -C $R checkout -q -- .
  if git -C $R apply /verif/$d/patch.diff 2>/dev/null; then
    WCVERIF_DEV_REPO=$R VERIF_SEED=${SEED:-0} timeout 3000 ./check $prop --tier quick > /tmp/sd_$id.log 2>&1; r="exit=$?"
  else r="patch-does-not-apply"; fi
  git -C $R checkout -q -- .
  echo "$id $prop $r" >> $out
done
echo DONE >> $out

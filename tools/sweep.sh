#!/bin/sh
# Developer tool: run the given checks under several seeds (meant for `vp run`). usage: sweep.sh "<seeds>" "<tier>" ID...
seeds=$1; tier=$2; shift 2
for s in $seeds; do for p in "$@"; do
  out=$(VERIF_SEED=$s ./check $p --tier $tier 2>&1); rc=$?
  echo "seed=$s $p exit=$rc $(echo "$out" | grep -E '^(OK|INCONCLUSIVE|HARNESS)' | cut -c1-160)"
  echo "$out" | grep -A1 '^VIOLATION' | cut -c1-400 | head -8
done; done

#!/bin/sh
# Developer tool: apply a seeded patch to /repo, run a check, always revert. usage: try_mutant.sh <patch.diff> <ID> [tier]
P=$(realpath "$1"); ID=$2; TIER=${3:-quick}
cd /repo && git diff --quiet || { echo "/repo dirty"; exit 9; }
git -C /repo apply "$P" || exit 8
cd /verif && ./check "$ID" --tier "$TIER" > /tmp/try_$ID.log 2>&1; rc=$?
git -C /repo checkout -- .
mkdir -p /tmp/ev_mut; cp /verif/evidence/$ID.json /tmp/ev_mut/ 2>/dev/null
git -C /verif checkout -- evidence/$ID.json 2>/dev/null
echo "exit=$rc"; grep -E "^(VIOLATION|INCONCLUSIVE|HARNESS|OK)" /tmp/try_$ID.log | head -5
exit 0
